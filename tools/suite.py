#!/venv/bin/python
"""maintainer tool: run the repo's pinned suite and compare with BASELINE.json stable_pass"""
import json, subprocess, sys, os, xml.etree.ElementTree as ET, tempfile
base = json.load(open('/root/.vp/BASELINE.json'))
out = tempfile.mktemp(suffix='.xml', dir='/dev/shm')
env = dict(os.environ)
p = subprocess.run(['/venv/bin/python', '-m', 'pytest', '-q', '-p', 'no:cacheprovider', '--timeout=900',
                    '--continue-on-collection-errors', '--junitxml=' + out], cwd='/repo',
                   stdout=subprocess.PIPE, stderr=subprocess.STDOUT, env=env)
passed = set()
for tc in ET.parse(out).getroot().iter('testcase'):
    if not list(tc):
        passed.add('%s::%s' % (tc.get('classname'), tc.get('name')))
os.remove(out)
missing = [t for t in base['stable_pass'] if t not in passed]
print('passed %d, baseline %d, baseline tests not passing: %s' % (len(passed), len(base['stable_pass']), missing))
sys.exit(1 if missing else 0)
