#!/venv/bin/python
"""maintainer tool (never run by a check): record a replay file as the
witness of a known finding, or record a repaired defect.

  tools/adopt.py finding <replay.json> "<what fails>"
  tools/adopt.py fixed <property> <commit> "<what failed>"
"""
import os, sys, json, shutil, re
VERIF = os.path.dirname(os.path.dirname(os.path.abspath(__file__)))
KF = os.path.join(VERIF, 'known_findings.json')
try:
    doc = json.load(open(KF))
except (OSError, ValueError):
    doc = {'findings': [], 'fixed': []}
if sys.argv[1] == 'finding':
    src, text = sys.argv[2], sys.argv[3]
    r = json.load(open(src))
    sig = r['violation']['sig']
    name = re.sub(r'[^A-Za-z0-9_.-]+', '_', sig) + '.json'
    dst = os.path.join(VERIF, 'known', name)
    shutil.copyfile(src, dst)
    doc['findings'] = [f for f in doc['findings'] if f['signature'] != sig]
    doc['findings'].append({'property': r['property'], 'signature': sig,
                            'text': text, 'witness': 'known/' + name})
    print('adopted', sig)
else:
    doc['fixed'].append('fixed: property=%s %s %s' % (sys.argv[2], sys.argv[3], sys.argv[4]))
doc['findings'].sort(key=lambda f: (f['property'], f['signature']))
json.dump(doc, open(KF, 'w'), indent=1, sort_keys=True)
