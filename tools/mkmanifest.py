#!/venv/bin/python
"""maintainer tool: regenerate MANIFEST.json from the table below."""
import os, json, subprocess
VERIF = os.path.dirname(os.path.dirname(os.path.abspath(__file__)))

ENGINES = {
    'memosim': ('sim/engines/memosim.py', 'sessions of decorated functions over one backend, K-model + twin worlds'),
    'archsim': ('sim/engines/archsim.py', 'archive handles over sandbox locations against a dict model; reader placements'),
    'syncsim': ('sim/engines/syncsim.py', 'cache bound to an archive: dump/load/sync/toggle algebra against a two-dict model'),
    'crashsim': ('sim/engines/crashsim.py', 'every crash point of one mutating operation, fresh-process reader afterwards'),
    'racesim': ('sim/engines/racesim.py', '2-3 client processes on one location under seeded fs-call-granular schedules'),
    'sessions': ('sim/engines/sessions.py', "chains of exec'd interpreters with scheduler-chosen hash seeds sharing an archive"),
}

TECH = 'deterministic simulation with fault injection: seeded search over %s, checked against %s'

CHECKS = {
    'C03': ('archsim', 'exploration', '3',
            'seeded operation schedules (4-70 mapping ops, clock steps incl. same-second rewrites, re-opens, '
            'failing ops, listing-order permutations, values above one MiB, keys with input files / long / with '
            'separators / outside ASCII (latin-1, decomposed, compatibility, CJK), ints beyond 64 bits for sqlite) over every constructible archive configuration, each step compared with a plain dict for the '
            'target and all sibling archives (30% of runs read the full contents back only every few steps, so that '
            'the harness does not hide state one operation leaves for the next); archives behind symlinks, under odd '
            'names, under relative names in two working directories, siblings of the same name in other directories',
            'samples histories, not all of them; key/value domains limited to what each encoding represents '
            'losslessly; sqlalchemy/hdf5 backends not installed',
            TECH % ('operation/clock/listing-order schedules', 'an executable dict model after every step')),
    'C04': ('archsim', 'exploration', '4',
            'seeded write histories on every persistent configuration interleaved with readers placed as new '
            'handle, rebuilt-from-state, copy, dill round trip, forked process, exec\'d interpreter (thorough), '
            'and decorate/dump/re-decorate round trips; each reader must see exactly the model contents',
            'samples histories and reader placements; process death is modelled by dropping every handle '
            '(page cache survives, no power-loss model)',
            TECH % ('write histories, clock steps and reader placements (same process / fork / exec)',
                    'a dict model of the durable contents')),
}

MEMO_NOTE = ('samples configurations and histories (not exhaustive); wrapped callables are deterministic and '
             'equality-respecting (Python signatures incl. float defaults, two required and nine named parameters, '
             'partials (one overriding a keyword-only default), method, callable instance, wraps decorator, a function without '
             'named parameters, one whose parameter names differ by case, plus the '
             'builtin max over comparison-logging ints); results are strings, and for a fixed fraction of calls None, '
             "'', 0 or a string of 9 kB / 1.2 MB; argument pools never mix values equal across types; flat keymaps "
             'with variadic signatures only with a sentinel; in-memory archives do not survive a restart')
MEMO_TECH = TECH % ('call/management/restart/fault histories over the decorator x maxsize x purge x keymap x backend space',
                    '%s')
for _p, _txt, _orc in [
    ('C01', 'every value returned through any of the 12 decorators, at every step of seeded histories mixing calls '
            '(several spellings), load/dump/clear/toggle/swap, restarts on the same location, clock steps, calls of a second '
            'instance on the same archive and of a sibling function sharing the code object (other defaults), restarts that re-open '
            'the archive directory with other compatible storage options, decorator objects copied or pickled before use, two '
            'live default-repr objects as arguments, another decorator object of the same class built first, calls that pass '
            'one list object again after mutating it in place, is '
            'compared with a direct evaluation of the undecorated function; no exception other than the function\'s own '
            'may reach the caller', 'a direct evaluation of the undecorated function at every call'),
    ('C02', 'an evaluation is accepted only if, just before the call, the key was neither resident nor in the attached '
            'archive; in strict runs (lossless archive attached throughout, graceful restarts, second instances) each '
            'key is evaluated at most once over the whole history; a second decorated function (own decorator, own memory, '
            'own handle) on the same persistent archive is interleaved and must not evaluate a key that is in its memory '
            'or in the shared archive; float nan arguments (raw keymap, pickled directory archives) are keys unequal to '
            'their own unpickled copy; the shared store may be emptied through another handle or by sync(clear=True)', 'an evaluation log and the observed memory/archive contents before each call'),
    ('C05', 'after every call len(cache) <= max(maxsize, len before) over histories with bulk load() overfills, '
            'toggles, restarts and dill copies; maxsize 0/None in keyword and positional spelling; purge empties memory '
            'on overflow of an archived cache; storage fault: the archive\'s directory is removed mid-run (later operations '
            'may fail, the bound must hold); decorators built without maxsize (bound 100) with more than 100 distinct calls; '
            'un-keyable arguments of safe caches', 'the capacity invariant after every call'),
    ('C06', 'call-only histories from an empty cache (plus raising calls), up to 400 steps with hit bursts that trigger '
            'the LRU queue compaction, caches of 1000+ entries with 10000+ hits between overflows, caches of 30-40 entries (LFU batch > 2) and sweep workloads that tie all use counts: the set leaving memory on each overflow must be exactly what LRU/MRU/LFU/RR '
            'select according to last-use stamps and use counts kept by the harness; purge configurations whose archive is '
            'switched off mid-run (counts restart when a purge empties memory); MRU histories where an archive is attached to a '
            'partly filled cache and load() fills it before the next miss', 'an executable policy model (last-use stamps, use counts) after every call'),
    ('C07', 'every key leaving memory during a call must be in the attached archive with the same value, no archived '
            'entry may change or vanish, and in strict runs every computed result stays retrievable; in "unenc" runs some '
            'results are refused by every encoding: the call or dump() may fail with the encoder\'s error but must lose '
            'nothing; steps where the shared store is emptied through another handle or by sync(clear=True), one entry is invalidated by '
            'hand through f.__cache__(), or the cache object is checkpointed (dump + clear)', 'the observed memory/archive contents before and after every call'),
    ('C15', 'info() must equal (hits, misses, loads) classified from the evaluation log and residency before each call, '
            'plus configured maxsize and current size, after every step of histories with clear/load/dump/toggle/'
            'restart/clone, raising calls (Exception, BaseException, OSError/KeyError/TypeError flavours) and safe fallbacks, a generator function; calls made through a second function built from the SAME '
            'decorator object, and calls of a second instance on the same archive, must not move the counters; runs of '
            'hundreds of hits and a recursive function are accounted exactly', 'counters derived from the evaluation log after every step'),
    ('C16', 'injected exceptions at seeded calls (Exception, interrupt-like BaseException, TimeoutError/KeyError/TypeError subclasses; a fifth raised `from` an explicit cause): '
            'the same exception object, with __cause__ and __suppress_context__ as raised, reaches the caller after one evaluation and '
            'info/cache/archive are unchanged; a twin world without those calls must show identical observations at '
            'every other step (exposes corrupted recency/frequency state); safe variants with unhashable/unencodable '
            'arguments evaluate once and return', 'a lock-step twin world that omits the raising calls'),
    ('C18', 'key()/lookup() probes at seeded points (resident, evicted, never seen arguments; ignore and tol/deep '
            'configurations, float defaults, float subclasses and nested floats under tol, a builtin that cannot be introspected): key() names the entry a call creates, lookup() returns the resident value or raises '
            'KeyError, neither evaluates; a call whose arguments key() cannot name creates no entry; a twin world without probes must show identical observations', 'a lock-step twin world without the probes'),
    ('C20', 'dill round trip of the decorated function at a seeded step (a fifth of the runs with tol and deep rounding): equal cache contents, info and settings at the '
            'round trip; the world continuing with the copy and the world continuing with the original must agree at '
            'every later step (results, resident sets, info); the original is unchanged by what the copy did; in some round trips '
            'the shared store is emptied between dumps() and loads() and the copy must still hold what was pickled', 'a lock-step twin world that keeps the original function'),
]:
    CHECKS[_p] = ('memosim', 'exploration', '4', _txt, MEMO_NOTE, MEMO_TECH % _orc)

CHECKS['C13'] = ('crashsim', 'fault_enumeration', '4',
    'per sampled scenario (persistent backend x encoding x prior contents x one mutating operation incl. dump/sync from a '
    'cached handle, merging another archive object, and merely opening; sqlite tables also with 500-1100 history rows) EVERY crash point at file-system/SQL-call granularity is executed - process killed '
    'before each mkdir/open-for-write/raw write/close/unlink/rmdir/rename/DML/commit, plus a partial-write crash for every '
    'raw write; for the sqlite file archive additionally at EVERY write/sync/truncate/unlink system call the sqlite C '
    'library issues (native LD_PRELOAD shim, incl. half-written buffers); a tenth of the single-file scenarios with the '
    'archive file writable but its directory not (writer demoted to an unprivileged uid); in half of the scenarios the reading '
    'process re-seeds the global random like the killed writer (same temporary names); a tenth of the single-file scenarios with a '
    'hard-linked archive file - and a fresh process must read the survivor without error and see old-or-new for touched keys, untouched '
    'keys unchanged and no foreign key',
    'crash points are exhaustive per scenario, scenarios are sampled; process-kill semantics (no power loss/fsync model); '
    'crash points inside sqlite need a C compiler at check time (otherwise only Python-level points run, reported by a probe); '
    '.pyc writes of the import system not intercepted',
    'deterministic simulation with fault injection: exhaustive crash-point enumeration (real process death at every '
    'intercepted mutating fs/SQL call and at every system call inside sqlite, incl. torn writes) over seeded scenarios, survivor checked by a fresh process '
    'against the old-or-new dict model')

CHECKS['C14'] = ('racesim', 'exploration', '4',
    'seeded schedules at file-system/SQL-call granularity over 2-3 real client processes (writer/writer on distinct keys '
    'via set/update/cache.dump/setdefault, writer/reader, overwriter/reader, deleter/reader, clearer/reader, writer/opener, '
    'a reader holding a half-consumed iterator, a client that discards an absent key and then idles) on dir (all encodings), sqlite-file and single-file archives; the recorded '
    'invoke/return history is checked: nobody fails, every value read was stored for that key by an overlapping or '
    'preceding write, no never-stored key appears, stable keys are not missed, a single-file reader sees one complete '
    'dictionary that existed, a fresh handle sees every acknowledged write; sqlite busy-waits run on virtual time and a '
    'busy timeout is accepted only while another client has an operation in flight (finished clients stay alive, idle); '
    'clients read clocks that are 0 / 90 / +-3600 s apart; in 15% of dir/sqlite runs one writing client is stalled right '
    'before its commit / final rename until the others have finished or given up; 12% of archives live behind a symlink; in 10% of '
    'the runs every client reports os.getpid() == 1 (PID namespaces)',
    'one sampled schedule per scenario (not all interleavings); interleaving granularity is the intercepted Python-level '
    'call (C-level sequences inside sqlite / importlib are atomic); file archive limited to one writer plus readers/openers',
    'deterministic simulation with fault injection: seeded scheduler over real client processes parked at every intercepted '
    'fs/SQL call, history checked per key against register semantics (linearizability-style) and a final-state model')

CHECKS['C08'] = ('syncsim', 'exploration', '4',
    'seeded interleavings (5-40 steps) of cache mutations, direct archive mutations, dump/load/sync with and without keys '
    '(incl. absent keys), mutations through a second handle on the same location, bare key listings of the attached archive, archived(on/off), open(other)/drop over every backend incl. null; after each step dict(cache), '
    'the contents of the attached, parked and replaced archives and archived() are compared with a two-dict model of the '
    'stated algebra',
    'samples interleavings; source-text file archives are driven one rewrite per simulated second (their same-second '
    'stale read is the C03/C04 known finding); drop() without an archive: observed outcome adopted',
    TECH % ('interleavings of cache/archive mutations and dump/load/sync/toggle/open/drop', 'a two-dict executable model after every step'))

CHECKS['C17'] = ('sessions', 'exploration', '4',
    "chains of 2-3 exec'd interpreters on one persistent archive; the scheduler gives each session its own PYTHONHASHSEED, "
    'extra imports, junk objects, unrelated earlier cache traffic, cwd and its own spelling of every call (keyword order, '
    'defaults spelled or not, positional vs keyword), optionally an ignore specification and a sibling function (same code '
    'object, other defaults) memoized first; key() of every call must be byte-identical in all sessions and later '
    'sessions must be served by loads without any evaluation, for raw/string/pickle/json/md5/sha1 keymaps x flat x typed x '
    'sentinel over every persistent backend; 8% of the chains use the raw keymap with a nine-parameter function (flat keys '
    'of more than 16 items) on pickled file/dir archives; a function whose parameter names differ by case only; chains with tol / deep '
    'rounding, signed zeros and a rounding function that ran first in only some sessions',
    "samples chains; arguments restricted to values whose repr/pickle is process independent; ~0.3 s per exec'd session "
    'bounds the number of chains',
    "deterministic simulation with fault injection: seeded chains of exec'd interpreter sessions (hash seed, process state "
    'and call spelling chosen by the scheduler), keys and load/miss outcomes compared across sessions')

NA = [
    ('C09', 'pure function of (signature, call form, keymap options): no history, schedule, clock, fault or restart for a simulator to vary; DESIGN.md section 5'),
    ('C10', 'pure function of a pair of calls and keymap options; the only process-dependent aspect (hash randomisation) is covered under C17; DESIGN.md section 5'),
    ('C11', 'pure function of (signature, ignore spec, pair of calls); DESIGN.md section 5'),
    ('C12', 'pure function of (tol, deep, arguments); DESIGN.md section 5'),
    ('C19', 'pure function of (callable, args, kwds): argument binding has no schedule, clock, I/O or fault in it; DESIGN.md section 5'),
]

ALL = ['C%02d' % i for i in range(1, 21)]


def main():
    built = [p for p in ALL if p in CHECKS and os.path.exists(os.path.join(VERIF, ENGINES[CHECKS[p][0]][0]))]
    checks = []
    for p in built:
        eng, level, ref, text, note, tech = CHECKS[p]
        checks.append({
            'property_id': p,
            'quick_cmd': './check %s --tier quick' % p,
            'thorough_cmd': './check %s --tier thorough' % p,
            'evidence_file': 'evidence/%s.json' % p,
            'replay_cmd_template': './check %s --replay {path}' % p,
            'engine': eng,
            'level_claimed': {'category': level, 'text': text, 'design_ref': 'DESIGN.md section 4 (%s)' % p},
            'level_note': note,
            'technique': tech,
        })
    na = [{'property_id': p, 'reason': r} for p, r in NA]
    for p in ALL:
        if p not in built and p not in dict(NA):
            na.append({'property_id': p, 'reason': 'check not built yet in this round (planned: DESIGN.md section 4); not claimed'})
    try:
        commits = subprocess.check_output(['git', '-C', '/repo', 'log', '--format=%h %s', '70603a7..HEAD']).decode().splitlines()
    except Exception:
        commits = []
    m = {
        'version': 1,
        'setup_cmd': '/venv/bin/python -c "import klepto, dill, pox, sqlite3" && chmod +x /verif/check',
        'hooks': {
            'guard': 'KLEPTO_VERIF',
            'enable': 'no hooks in /repo: every seam (klepto._archives.open, klepto._pickle.open, os.*, sqlite3.connect, '
                      'time.sleep, tempfile.mktemp, random) is rebound from outside by /verif/sim/simfs.py; '
                      'klepto is imported from /repo\'s working tree through the editable install',
            'baseline_off_cmd': 'cd /repo && /venv/bin/python -m pytest -ra -q -p no:cacheprovider --timeout=900 --continue-on-collection-errors',
            'source_commits': [],
            'add_only': True,
        },
        'engines': [{'name': n, 'path': ENGINES[n][0],
                     'serves_properties': [p for p in built if CHECKS[p][0] == n],
                     'kind_free_text': ENGINES[n][1]}
                    for n in ENGINES if os.path.exists(os.path.join(VERIF, ENGINES[n][0]))],
        'checks': checks,
        'notes': 'fix: commits in /repo (unguarded repairs of genuine defects, see known_findings.json "fixed"): '
                 + '; '.join(c for c in commits if ' fix:' in c),
        'not_applicable': sorted(na, key=lambda x: x['property_id']),
    }
    with open(os.path.join(VERIF, 'MANIFEST.json'), 'w') as f:
        json.dump(m, f, indent=1)
    print('checks:', [c['property_id'] for c in checks])


if __name__ == '__main__':
    main()
