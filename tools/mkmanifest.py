#!/venv/bin/python
"""maintainer tool: regenerate MANIFEST.json from the table below."""
import os, json, subprocess
VERIF = os.path.dirname(os.path.dirname(os.path.abspath(__file__)))

ENGINES = {
    'memosim': ('sim/engines/memosim.py', 'sessions of decorated functions over one backend, K-model + twin worlds'),
    'archsim': ('sim/engines/archsim.py', 'archive handles over sandbox locations against a dict model; reader placements'),
    'syncsim': ('sim/engines/syncsim.py', 'cache bound to an archive: dump/load/sync/toggle algebra against a two-dict model'),
    'crashsim': ('sim/engines/crashsim.py', 'every crash point of one mutating operation, fresh-process reader afterwards'),
    'racesim': ('sim/engines/racesim.py', '2-3 client processes on one location under seeded fs-call-granular schedules'),
    'sessions': ('sim/engines/sessions.py', "chains of exec'd interpreters with scheduler-chosen hash seeds sharing an archive"),
}

TECH = 'deterministic simulation with fault injection: seeded search over %s, checked against %s'

CHECKS = {
    'C03': ('archsim', 'exploration', '3',
            'seeded operation schedules (4-70 mapping ops, clock steps incl. same-second rewrites, re-opens, '
            'failing ops, listing-order permutations) over every constructible archive configuration, each step '
            'compared with a plain dict for the target and all sibling archives',
            'samples histories, not all of them; key/value domains limited to what each encoding represents '
            'losslessly; sqlalchemy/hdf5 backends not installed',
            TECH % ('operation/clock/listing-order schedules', 'an executable dict model after every step')),
    'C04': ('archsim', 'exploration', '4',
            'seeded write histories on every persistent configuration interleaved with readers placed as new '
            'handle, rebuilt-from-state, copy, dill round trip, forked process, exec\'d interpreter (thorough), '
            'and decorate/dump/re-decorate round trips; each reader must see exactly the model contents',
            'samples histories and reader placements; process death is modelled by dropping every handle '
            '(page cache survives, no power-loss model)',
            TECH % ('write histories, clock steps and reader placements (same process / fork / exec)',
                    'a dict model of the durable contents')),
}

NA = [
    ('C09', 'pure function of (signature, call form, keymap options): no history, schedule, clock, fault or restart for a simulator to vary; DESIGN.md section 5'),
    ('C10', 'pure function of a pair of calls and keymap options; the only process-dependent aspect (hash randomisation) is covered under C17; DESIGN.md section 5'),
    ('C11', 'pure function of (signature, ignore spec, pair of calls); DESIGN.md section 5'),
    ('C12', 'pure function of (tol, deep, arguments); DESIGN.md section 5'),
    ('C19', 'pure function of (callable, args, kwds): argument binding has no schedule, clock, I/O or fault in it; DESIGN.md section 5'),
]

ALL = ['C%02d' % i for i in range(1, 21)]


def main():
    built = [p for p in ALL if p in CHECKS and os.path.exists(os.path.join(VERIF, ENGINES[CHECKS[p][0]][0]))]
    checks = []
    for p in built:
        eng, level, ref, text, note, tech = CHECKS[p]
        checks.append({
            'property_id': p,
            'quick_cmd': './check %s --tier quick' % p,
            'thorough_cmd': './check %s --tier thorough' % p,
            'evidence_file': 'evidence/%s.json' % p,
            'replay_cmd_template': './check %s --replay {path}' % p,
            'engine': eng,
            'level_claimed': {'category': level, 'text': text, 'design_ref': 'DESIGN.md section 4 (%s)' % p},
            'level_note': note,
            'technique': tech,
        })
    na = [{'property_id': p, 'reason': r} for p, r in NA]
    for p in ALL:
        if p not in built and p not in dict(NA):
            na.append({'property_id': p, 'reason': 'check not built yet in this round (planned: DESIGN.md section 4); not claimed'})
    try:
        commits = subprocess.check_output(['git', '-C', '/repo', 'log', '--format=%h %s', '70603a7..HEAD']).decode().splitlines()
    except Exception:
        commits = []
    m = {
        'version': 1,
        'setup_cmd': '/venv/bin/python -c "import klepto, dill, pox, sqlite3" && chmod +x /verif/check',
        'hooks': {
            'guard': 'KLEPTO_VERIF',
            'enable': 'no hooks in /repo: every seam (klepto._archives.open, klepto._pickle.open, os.*, sqlite3.connect, '
                      'time.sleep, tempfile.mktemp, random) is rebound from outside by /verif/sim/simfs.py; '
                      'klepto is imported from /repo\'s working tree through the editable install',
            'baseline_off_cmd': 'cd /repo && /venv/bin/python -m pytest -ra -q -p no:cacheprovider --timeout=900 --continue-on-collection-errors',
            'source_commits': [],
            'add_only': True,
        },
        'engines': [{'name': n, 'path': ENGINES[n][0],
                     'serves_properties': [p for p in built if CHECKS[p][0] == n],
                     'kind_free_text': ENGINES[n][1]}
                    for n in ENGINES if os.path.exists(os.path.join(VERIF, ENGINES[n][0]))],
        'checks': checks,
        'notes': 'fix: commits in /repo (unguarded repairs of genuine defects, see known_findings.json "fixed"): '
                 + '; '.join(c for c in commits if ' fix:' in c),
        'not_applicable': sorted(na, key=lambda x: x['property_id']),
    }
    with open(os.path.join(VERIF, 'MANIFEST.json'), 'w') as f:
        json.dump(m, f, indent=1)
    print('checks:', [c['property_id'] for c in checks])


if __name__ == '__main__':
    main()
