#!/venv/bin/python
"""maintainer tool: build selftest/mutants/<name>.{diff,json} from a textual replacement
   mkmutant.py name file 'old' 'new' 'C06,C01' 'what' [count]"""
import sys, os, subprocess, tempfile, shutil, json
name, rel, old, new, expect, what = sys.argv[1:7]
nth = int(sys.argv[7]) if len(sys.argv) > 7 else 0
src = open(os.path.join('/repo', rel)).read()
assert src.count(old) >= 1, 'pattern not found'
if src.count(old) > 1 and not nth:
    print('pattern occurs %d times; pass which (1-based)' % src.count(old)); sys.exit(1)
if nth:
    parts = src.split(old)
    dst = old.join(parts[:nth]) + new + old.join(parts[nth:])
else:
    dst = src.replace(old, new)
d = tempfile.mkdtemp(dir='/dev/shm')
os.makedirs(os.path.join(d, 'a', os.path.dirname(rel))); os.makedirs(os.path.join(d, 'b', os.path.dirname(rel)))
open(os.path.join(d, 'a', rel), 'w').write(src); open(os.path.join(d, 'b', rel), 'w').write(dst)
p = subprocess.run(['diff', '-u', os.path.join('a', rel), os.path.join('b', rel)], cwd=d, stdout=subprocess.PIPE)
out = os.path.join('/verif/selftest/mutants', name)
open(out + '.diff', 'wb').write(p.stdout)
json.dump({'expect': expect.split(','), 'what': what}, open(out + '.json', 'w'), indent=1)
shutil.rmtree(d)
print('wrote', out, len(p.stdout.splitlines()), 'diff lines')
