#!/venv/bin/python
"""maintainer tool: confirm a seeded change before it is kept under /verif/seeded/<id>/

   seedcheck.py <dir holding patch.diff and demo.py> [--no-suite]

 1. patch.diff applies to a scratch copy of /repo's HEAD and touches only klepto/ (not klepto/tests)
 2. demo.py exits 0 on the unchanged copy and non-zero on the changed copy
 3. the pinned test suite passes (BASELINE.json stable_pass) on the changed copy
Scratch copies live under /dev/shm and are removed afterwards.
"""
import json, os, shutil, subprocess, sys, tempfile
import xml.etree.ElementTree as ET

PY = '/venv/bin/python'


def sh(args, **kw):
    return subprocess.run(args, stdout=subprocess.PIPE, stderr=subprocess.STDOUT, **kw)


def main():
    src = os.path.abspath(sys.argv[1])
    suite = '--no-suite' not in sys.argv
    patch = os.path.join(src, 'patch.diff')
    demo = os.path.join(src, 'demo.py')
    files = [l[6:].strip() for l in open(patch) if l.startswith('+++ b/')]
    bad = [f for f in files if not f.startswith('klepto/') or f.startswith('klepto/tests/')]
    print('patch touches: %s' % files)
    if bad:
        print('REJECT: touches files outside klepto/ or tests: %s' % bad)
        return 1
    base = tempfile.mkdtemp(prefix='seedchk-', dir='/dev/shm')
    ok = True
    try:
        for name in ('clean', 'changed'):
            d = os.path.join(base, name)
            os.makedirs(d)
            p = subprocess.Popen(['git', '-C', '/repo', 'archive', 'HEAD'], stdout=subprocess.PIPE)
            subprocess.check_call(['tar', '-x', '-C', d], stdin=p.stdout)
            p.wait()
        p = sh(['git', 'apply', '--verbose', patch], cwd=os.path.join(base, 'changed'))
        if p.returncode:
            print('REJECT: patch does not apply:\n' + p.stdout.decode()[-800:])
            return 1
        for name, want_fail in (('clean', False), ('changed', True)):
            cwd = os.path.join(base, 'cwd-' + name)
            os.makedirs(cwd)
            env = dict(os.environ, PYTHONPATH=os.path.join(base, name), PYTHONDONTWRITEBYTECODE='1')
            try:
                p = sh(['timeout', '300', PY, demo], cwd=cwd, env=env)
                rc, out = p.returncode, p.stdout.decode()
            except Exception as e:
                rc, out = -1, str(e)
            good = (rc != 0) if want_fail else (rc == 0)
            print('demo on %-7s: exit %d (%s)  %s' % (name, rc, 'as required' if good else 'NOT as required',
                                                    out.strip().splitlines()[-1][:300] if out.strip() else ''))
            if not good:
                print(out[-1500:])
                ok = False
        if suite:
            b = json.load(open('/root/.vp/BASELINE.json'))
            x = os.path.join(base, 'junit.xml')
            d = os.path.join(base, 'changed')
            env = dict(os.environ, PYTHONPATH=d)
            p = sh([PY, '-m', 'pytest', '-q', '-p', 'no:cacheprovider', '--timeout=900',
                    '--continue-on-collection-errors', '--junitxml=' + x, 'klepto/tests'], cwd=d, env=env)
            passed = set()
            for tc in ET.parse(x).getroot().iter('testcase'):
                if not list(tc):
                    passed.add('%s::%s' % (tc.get('classname'), tc.get('name')))
            missing = [t for t in b['stable_pass'] if t not in passed]
            print('suite on changed: %d passed, baseline tests not passing: %s' % (len(passed), missing))
            if missing:
                ok = False
    finally:
        shutil.rmtree(base, ignore_errors=True)
    print('CONFIRMED' if ok else 'NOT CONFIRMED')
    return 0 if ok else 1


if __name__ == '__main__':
    sys.exit(main())
