"""SplitMix64 on plain integers: the only source of randomness in the simulator.

Nothing here depends on `random.Random` internals or on hash randomisation,
so a (property, VERIF_SEED, run_index) triple names one exact stream on any
interpreter.
"""
import hashlib

MASK = (1 << 64) - 1


def derive_seed(*labels):
    """64-bit seed from a tuple of labels (ints / strs), process independent."""
    h = hashlib.sha256(repr(tuple(labels)).encode()).digest()
    return int.from_bytes(h[:8], 'big')


class PRNG(object):
    def __init__(self, seed):
        self.state = seed & MASK
        self.draws = 0

    @classmethod
    def of(cls, *labels):
        return cls(derive_seed(*labels))

    def u64(self):
        self.draws += 1
        self.state = (self.state + 0x9E3779B97F4A7C15) & MASK
        z = self.state
        z = ((z ^ (z >> 30)) * 0xBF58476D1CE4E5B9) & MASK
        z = ((z ^ (z >> 27)) * 0x94D049BB133111EB) & MASK
        return z ^ (z >> 31)

    def below(self, n):
        """uniform integer in [0, n)"""
        if n <= 0:
            raise ValueError("below(%r)" % (n,))
        # rejection sampling: exact uniformity, still deterministic
        limit = MASK - ((MASK + 1) % n)
        while True:
            x = self.u64()
            if x <= limit:
                return x % n

    def randint(self, a, b):
        return a + self.below(b - a + 1)

    def random(self):
        return (self.u64() >> 11) / float(1 << 53)

    def chance(self, p):
        return self.random() < p

    def choice(self, seq):
        return seq[self.below(len(seq))]

    def weighted(self, pairs):
        """pairs: list of (weight, item) with integer or float weights"""
        total = 0.0
        for w, _ in pairs:
            total += w
        x = self.random() * total
        acc = 0.0
        for w, item in pairs:
            acc += w
            if x < acc:
                return item
        return pairs[-1][1]

    def shuffle(self, lst):
        for i in range(len(lst) - 1, 0, -1):
            j = self.below(i + 1)
            lst[i], lst[j] = lst[j], lst[i]
        return lst

    def sample(self, seq, k):
        lst = list(seq)
        self.shuffle(lst)
        return lst[:k]

    def fork(self, *labels):
        """independent child stream; consumes one draw from the parent"""
        return PRNG(derive_seed(self.u64(), *labels))
