"""Minimisation of a failing case: ddmin over case['ops'], then engine hints.

`test(case)` re-runs a candidate in a fresh forked child and returns its
violation dict or None.  A candidate is accepted only when the *same
violation class* recurs.
"""
import copy


def _with_ops(case, ops):
    c = copy.deepcopy(case)
    c['ops'] = ops
    return c


def ddmin_ops(case, test, vclass, budget):
    ops = list(case.get('ops', []))
    n = 2
    best_v = None
    while len(ops) >= 2 and budget[0] > 0:
        chunk = max(1, len(ops) // n)
        reduced = False
        i = 0
        while i < len(ops) and budget[0] > 0:
            cand = ops[:i] + ops[i + chunk:]
            if not cand:
                i += chunk
                continue
            budget[0] -= 1
            v = test(_with_ops(case, cand))
            if v is not None and v.get('class') == vclass:
                ops = cand
                best_v = v
                n = max(n - 1, 2)
                reduced = True
            else:
                i += chunk
        if not reduced:
            if chunk == 1:
                break
            n = min(len(ops), n * 2)
    # final single-op removal pass
    i = 0
    while i < len(ops) and len(ops) > 1 and budget[0] > 0:
        cand = ops[:i] + ops[i + 1:]
        budget[0] -= 1
        v = test(_with_ops(case, cand))
        if v is not None and v.get('class') == vclass:
            ops = cand
            best_v = v
        else:
            i += 1
    return _with_ops(case, ops), best_v


def shrink(case, viol, test, simplify=None, budget=300):
    """returns (minimal case, its violation)"""
    vclass = viol.get('class')
    left = [budget]
    best, best_v = case, viol
    # truncate after the failing step first (cheap, usually valid)
    step = viol.get('step')
    if isinstance(step, int) and 'ops' in case and step + 1 < len(case['ops']):
        cand = _with_ops(case, case['ops'][:step + 1])
        left[0] -= 1
        v = test(cand)
        if v is not None and v.get('class') == vclass:
            best, best_v = cand, v
    if 'ops' in best:
        c, v = ddmin_ops(best, test, vclass, left)
        if v is not None:
            best, best_v = c, v
    if simplify is not None:
        progress = True
        while progress and left[0] > 0:
            progress = False
            for cand in simplify(best):
                if left[0] <= 0:
                    break
                left[0] -= 1
                v = test(cand)
                if v is not None and v.get('class') == vclass:
                    best, best_v = cand, v
                    progress = True
                    break
    return best, best_v
