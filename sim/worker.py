"""Block worker: one freshly exec'd interpreter (own PYTHONHASHSEED) that
executes a block of runs, each in a forked child, and prints one JSON line
per run on stdout.

job (JSON on stdin):
  {"mode": "explore", "prop": "C03", "seed": 0, "tier": "quick",
   "first": 0, "count": 64, "token": "..."}
  {"mode": "replay", "prop": "C03", "case": {...}, "token": "..."}
"""
import os
import sys
import json
import time
import shutil
import select
import signal
import hashlib
import traceback
import faulthandler

HERE = os.path.dirname(os.path.abspath(__file__))
sys.path.insert(0, os.path.dirname(HERE))

ENGINE_OF = {
    'C01': 'memosim', 'C02': 'memosim', 'C05': 'memosim', 'C06': 'memosim',
    'C07': 'memosim', 'C15': 'memosim', 'C16': 'memosim', 'C18': 'memosim',
    'C20': 'memosim',
    'C03': 'archsim', 'C04': 'archsim',
    'C08': 'syncsim',
    'C13': 'crashsim',
    'C14': 'racesim',
    'C17': 'sessions',
}

RUN_TIMEOUT = float(os.environ.get('VERIF_RUN_TIMEOUT', '180'))


class MainThing(object):
    """a user-defined class that lives in the script's __main__ (this file runs as a script): values of such a
    class written by one process must be readable by a process whose __main__ is something else"""
    def __init__(self, n):
        self.n = n

    def __eq__(self, other):
        return type(other).__name__ == 'MainThing' and getattr(other, 'n', None) == self.n

    def __ne__(self, other):
        return not self.__eq__(other)

    __hash__ = None

    def __repr__(self):
        return 'MainThing(%r)' % (self.n,)


def scratch_base():
    for base in ('/dev/shm', os.environ.get('TMPDIR', '/tmp')):
        if os.path.isdir(base) and os.access(base, os.W_OK):
            return os.path.join(base, 'klepto-verif')
    return os.path.join('/tmp', 'klepto-verif')


def load_engine(prop):
    import importlib
    return importlib.import_module('sim.engines.' + ENGINE_OF[prop])


def prepare_interpreter():
    """import klepto without writing bytecode into /repo; keep '' on sys.path"""
    sys.dont_write_bytecode = True
    root = os.environ.get('VERIF_KLEPTO_ROOT')
    if root:
        sys.path.insert(0, root)
    import klepto            # noqa
    import klepto.archives   # noqa
    import klepto.safe       # noqa
    import klepto.keymaps    # noqa
    import dill              # noqa
    import pox               # noqa
    import sqlite3           # noqa
    if '' not in sys.path:
        sys.path.insert(0, '')


_KNOWN = {}


def known_signatures(prop):
    """signatures of the known findings of this property (read-only; lets an
    engine that enumerates fault points continue past an already known one)"""
    if prop not in _KNOWN:
        try:
            with open(os.path.join(os.path.dirname(HERE), 'known_findings.json')) as f:
                doc = json.load(f)
            _KNOWN[prop] = sorted(k['signature'] for k in doc.get('findings', []) if k['property'] == prop)
        except (OSError, ValueError):
            _KNOWN[prop] = []
    return _KNOWN[prop]


def run_isolated(engine, case, prop, token, tag, timeout=None):
    """execute one case in a forked child on a private sandbox directory"""
    timeout = timeout or RUN_TIMEOUT
    base = os.path.join(scratch_base(), token)
    root = os.path.join(base, tag)
    shutil.rmtree(root, ignore_errors=True)
    os.makedirs(root)
    r, w = os.pipe()
    sys.stdout.flush()
    sys.stderr.flush()
    pid = os.fork()
    if pid == 0:
        code = 0
        try:
            os.close(r)
            os.setpgid(0, 0)
            faulthandler.enable()
            faulthandler.dump_traceback_later(timeout * 0.9, exit=False)
            os.chdir(root)
            sys.dont_write_bytecode = False
            try:
                out = engine.execute(case, prop, {'root': root, 'token': token, 'tag': tag,
                                                  'known': known_signatures(prop)})
            except BaseException:
                out = {'harness_error': traceback.format_exc()[-3000:]}
            data = json.dumps(out).encode()
            with os.fdopen(w, 'wb') as f:
                f.write(data)
        except BaseException:
            code = 3
        finally:
            os._exit(code)
    os.close(w)
    chunks = []
    deadline = time.time() + timeout
    timed_out = False
    while True:
        left = deadline - time.time()
        if left <= 0:
            timed_out = True
            break
        rl, _, _ = select.select([r], [], [], min(left, 5.0))
        if rl:
            b = os.read(r, 1 << 16)
            if not b:
                break
            chunks.append(b)
    os.close(r)
    if timed_out:
        try:
            os.killpg(pid, signal.SIGKILL)
        except OSError:
            try:
                os.kill(pid, signal.SIGKILL)
            except OSError:
                pass
    try:
        os.waitpid(pid, 0)
    except OSError:
        pass
    # make sure no grandchildren linger (crashsim / racesim fork clients)
    try:
        os.killpg(pid, signal.SIGKILL)
    except OSError:
        pass
    shutil.rmtree(root, ignore_errors=True)
    if timed_out:
        return {'harness_timeout': True}
    try:
        return json.loads(b''.join(chunks).decode())
    except Exception:
        return {'harness_error': 'child died without a result (%d bytes)' % sum(map(len, chunks))}


def digest_of(case, out):
    h = hashlib.sha1()
    h.update(json.dumps(case, sort_keys=True).encode())
    h.update(json.dumps(out.get('obs_digest', ''), sort_keys=True).encode())
    h.update(json.dumps(out.get('viol'), sort_keys=True).encode())
    return h.hexdigest()


def explore(job):
    from sim.prng import PRNG
    from sim import shrink as shr
    prop, seed, tier = job['prop'], job['seed'], job['tier']
    token = job['token']
    engine = load_engine(prop)
    for run in range(job['first'], job['first'] + job['count']):
        rng = PRNG.of(prop, seed, run)
        t0 = time.time()
        case = engine.generate(rng, prop, tier)
        case['_hashseed'] = os.environ.get('PYTHONHASHSEED', '')
        tag = '%s-%d' % (prop, run)
        out = run_isolated(engine, case, prop, token, tag)
        rec = {'run': run, 'digest': digest_of(case, out)}
        for k in ('steps', 'shape', 'nontrivial', 'probes', 'faults', 'sim_s',
                  'harness_error', 'harness_timeout', 'real_events', 'known_hits'):
            if k in out:
                rec[k] = out[k]
        viol = out.get('viol')
        if viol:
            n = [0]

            def test(cand):
                n[0] += 1
                o = run_isolated(engine, cand, prop, token, '%s-s%d' % (tag, n[0]))
                return o.get('viol')
            budget = int(os.environ.get('VERIF_SHRINK_BUDGET', '0')) or getattr(engine, 'SHRINK_BUDGET', 250)
            if hasattr(engine, 'shrink_budget'):
                budget = min(budget, engine.shrink_budget(case))
            mcase, mviol = shr.shrink(case, viol, test,
                                      getattr(engine, 'simplify', None), budget)
            # signature is computed from the minimised case
            mviol = dict(mviol)
            mviol['sig'] = engine.signature(mcase, mviol, prop)
            rec['viol'] = mviol
            rec['case'] = mcase
            rec['orig_ops'] = len(case.get('ops', []))
            rec['shrink_runs'] = n[0]
        elif job.get('samples', 0) and run - job['first'] < job['samples']:
            rec['case'] = case
        rec['wall'] = round(time.time() - t0, 4)
        sys.stdout.write(json.dumps(rec) + '\n')
        sys.stdout.flush()


def replay(job):
    prop = job['prop']
    engine = load_engine(prop)
    case = job['case']
    out = run_isolated(engine, case, prop, job['token'], '%s-replay' % prop)
    rec = {'run': -1, 'digest': digest_of(case, out)}
    for k in ('harness_error', 'harness_timeout', 'steps', 'shape'):
        if k in out:
            rec[k] = out[k]
    viol = out.get('viol')
    if viol:
        viol = dict(viol)
        viol['sig'] = engine.signature(case, viol, prop)
        rec['viol'] = viol
    sys.stdout.write(json.dumps(rec) + '\n')
    sys.stdout.flush()


def main():
    job = json.loads(sys.stdin.read())
    prepare_interpreter()
    if job['mode'] == 'explore':
        explore(job)
    else:
        replay(job)
    sys.stdout.write('BLOCK-DONE\n')
    sys.stdout.flush()


if __name__ == '__main__':
    main()
