"""One simulated interpreter session for the `sessions` engine (C17).

Run as a script in a freshly exec'd interpreter whose PYTHONHASHSEED, cwd,
import history and call spellings were chosen by the scheduler.  Reads a JSON
job on stdin, prints one JSON line.
"""
import os
import sys
import json

sys.dont_write_bytecode = True
HERE = os.path.dirname(os.path.abspath(__file__))
sys.path.insert(0, os.path.dirname(HERE))


def main():
    job = json.loads(sys.stdin.read())
    noise = job.get('noise', {})
    for mod in noise.get('imports', []):
        try:
            __import__(mod)
        except ImportError:
            pass
    if job.get('klepto_root'):
        sys.path.insert(0, job['klepto_root'])
    import klepto
    import klepto.safe
    sys.dont_write_bytecode = False
    if '' not in sys.path:
        sys.path.insert(0, '')
    from sim import backends as B
    from sim.values import dec
    from sim.engines import memosim as M
    os.chdir(noise.get('cwd') or job['root'])

    class W(object):
        evals = []
        raise_next = None
    M._Cur.world = W
    # unrelated earlier activity in this process
    junk = {}
    for i in range(noise.get('junk_objects', 0)):
        junk[str(i) * 3] = object()
    if noise.get('other_first'):
        g = klepto.lru_cache(maxsize=3, keymap=M.make_keymap(job['keymap']))(M.f1)
        for x in noise['other_first']:
            g(dec(x))
    if noise.get('sibling_first'):
        # a function made from the same code object as the one under test, with other defaults, is
        # memoized and called first in this session (factory / lambda-in-a-loop siblings)
        sib = klepto.inf_cache(keymap=M.make_keymap(job['keymap']))(M.sibling_of(M.FUNCS[job['fn']][0]))
        for op in job['calls'][:2]:
            try:
                sib(*[dec(v) for v in op['a']], **dict((n, dec(v)) for n, v in op['kw']))
            except TypeError:
                pass
    mod = klepto.safe if job.get('module') == 'safe' else klepto
    cache = B.make(job['backend'], job['root'], cached=True)
    kwds = {}
    if job.get('ignore'):
        kwds['ignore'] = tuple(job['ignore'])
    if job.get('tol') is not None:
        kwds['tol'], kwds['deep'] = job['tol'], bool(job.get('deep'))
        if noise.get('rounded_first'):
            r = klepto.inf_cache(keymap=M.make_keymap(job['keymap']), tol=job['tol'], deep=bool(job.get('deep')))(M.f3)
            for x in noise['rounded_first']:
                r(dec(x), (dec(x), 1.0))
    if job.get('algo') == 'lru':
        deco = mod.lru_cache(maxsize=1000, cache=cache, keymap=M.make_keymap(job['keymap']), **kwds)
    else:
        deco = mod.inf_cache(cache=cache, keymap=M.make_keymap(job['keymap']), **kwds)
    fn = M.FUNCS[job['fn']][0]
    f = deco(fn)
    if noise.get('failed_call_first'):
        # earlier in this process a call failed: arguments no keymap can encode / hash (a generator, an object
        # whose pickling and repr raise). What it leaves behind must not change later keys.
        for bad in ((i for i in range(3)), M.dec({'$o': 'unpicklable'}), M.dec({'$o': 'badrepr'})):
            for probe in (f.key, f.lookup):
                try:
                    probe(bad) if job['fn'] not in ('f9', 't2') else probe(bad, 1, 2)
                except BaseException:
                    pass
    out = []
    seen = set()
    for op in job['calls']:
        args = [dec(v) for v in op['a']]
        kw = dict((n, dec(v)) for n, v in op['kw'])      # insertion order = spelled order
        key = f.key(*args, **kw)
        n0 = len(W.evals)
        i0 = tuple(f.info())
        res = f(*args, **kw)
        i1 = tuple(f.info())
        kind = 'miss' if len(W.evals) > n0 else ('hit' if i1[0] > i0[0] else 'load')
        krepr = key.hex() if isinstance(key, bytes) else repr(key)
        out.append({'key': krepr, 'ktype': type(key).__name__, 'res': res, 'kind': kind,
                    'first': krepr not in seen})
        seen.add(krepr)
    f.dump()
    print(json.dumps({'calls': out, 'info': list(f.info()),
                      'hashseed': os.environ.get('PYTHONHASHSEED'),
                      'hash_probe': hash('probe') % 1000}))


if __name__ == '__main__':
    main()
