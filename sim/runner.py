"""Top-level orchestration of a check: blocks of runs in exec'd workers,
aggregation, known findings, replay files, evidence."""
import os
import sys
import json
import time
import shutil
import subprocess

HERE = os.path.dirname(os.path.abspath(__file__))
VERIF = os.path.dirname(HERE)
sys.path.insert(0, VERIF)

from sim.prng import derive_seed          # noqa: E402
from sim.worker import ENGINE_OF, scratch_base  # noqa: E402

PYTHON = os.environ.get('VERIF_PYTHON', '/venv/bin/python')
WORKER = os.path.join(HERE, 'worker.py')
BLOCK = 64
KNOWN_FILE = os.path.join(VERIF, 'known_findings.json')

# runs per tier and property (budgets tuned so quick stays ~1 minute on 16 cores)
RUNS = {
    'quick': {
        'C01': 6000, 'C02': 6000, 'C05': 6000, 'C06': 6000, 'C07': 6000,
        'C15': 6000, 'C16': 5000, 'C18': 5000, 'C20': 3000,
        'C03': 6000, 'C04': 3000, 'C08': 6000, 'C13': 1500, 'C14': 1600,
        'C17': 192,
    },
    'thorough': {
        'C01': 200000, 'C02': 200000, 'C05': 200000, 'C06': 200000,
        'C07': 200000, 'C15': 200000, 'C16': 150000, 'C18': 150000,
        'C20': 80000, 'C03': 200000, 'C04': 80000, 'C08': 200000,
        'C13': 40000, 'C14': 30000, 'C17': 4096,
    },
}

LEVEL = {p: 'exploration' for p in ENGINE_OF}
LEVEL['C13'] = 'fault_enumeration'


def hashseed_for(seed, prop, block):
    return derive_seed('hashseed', seed, prop, block) % (2 ** 32)


def load_known():
    try:
        with open(KNOWN_FILE) as f:
            return json.load(f)
    except (OSError, ValueError):
        return {'findings': [], 'fixed': []}


def spawn(job, hashseed):
    env = dict(os.environ)
    env['PYTHONHASHSEED'] = str(hashseed)
    env['PYTHONDONTWRITEBYTECODE'] = '1'
    env.pop('PYTHONPATH', None)
    env.pop('LD_PRELOAD', None)
    if job.get('prop') == 'C13':
        # crash points inside the sqlite C library need the native shim preloaded into the worker
        from sim import native
        so = native.build()
        if so:
            env['LD_PRELOAD'] = so
    p = subprocess.Popen([PYTHON, '-B', WORKER], stdin=subprocess.PIPE,
                         stdout=subprocess.PIPE, stderr=subprocess.PIPE,
                         env=env, cwd='/')
    p.stdin.write(json.dumps(job).encode())
    p.stdin.close()
    p.stdin = None
    return p


def run_blocks(prop, seed, tier, n_runs, jobs, token, samples=2, deadline=None,
               on_record=None):
    """yield records from all blocks; deterministic content, any order"""
    import selectors
    blocks = []
    first = 0
    while first < n_runs:
        cnt = min(BLOCK, n_runs - first)
        blocks.append((first // BLOCK, first, cnt))
        first += cnt
    pending = list(reversed(blocks))
    active = {}
    sel = selectors.DefaultSelector()
    records = []
    errors = []
    stopped = False
    while pending or active:
        while pending and len(active) < jobs and not stopped:
            b, first, cnt = pending.pop()
            job = {'mode': 'explore', 'prop': prop, 'seed': seed, 'tier': tier,
                   'first': first, 'count': cnt, 'token': token,
                   'samples': samples if b == 0 else 0}
            p = spawn(job, hashseed_for(seed, prop, b))
            os.set_blocking(p.stdout.fileno(), False)
            active[p.stdout.fileno()] = (p, b, bytearray(), [False])
            sel.register(p.stdout, selectors.EVENT_READ)
        if stopped and not active:
            break
        if stopped:
            pending = []
        for key, _ in sel.select(timeout=1.0):
            fd = key.fileobj.fileno()
            p, b, buf, done = active[fd]
            try:
                chunk = os.read(fd, 1 << 16)
            except BlockingIOError:
                continue
            if chunk:
                buf.extend(chunk)
                while True:
                    i = buf.find(b'\n')
                    if i < 0:
                        break
                    line = bytes(buf[:i]).decode()
                    del buf[:i + 1]
                    if line == 'BLOCK-DONE':
                        done[0] = True
                        continue
                    try:
                        rec = json.loads(line)
                    except ValueError:
                        errors.append('block %d: bad line %r' % (b, line[:200]))
                        continue
                    rec['block'] = b
                    rec['hashseed'] = hashseed_for(seed, prop, b)
                    records.append(rec)
                    if on_record:
                        on_record(rec)
            else:
                sel.unregister(key.fileobj)
                p.wait()
                err = p.stderr.read().decode(errors='replace')
                p.stdout.close()
                p.stderr.close()
                if not done[0]:
                    errors.append('block %d: worker exited %s without finishing: %s'
                                  % (b, p.returncode, err[-1500:]))
                del active[fd]
        if deadline is not None and time.time() > deadline and not stopped:
            stopped = True
            for fd, (p, b, buf, done) in list(active.items()):
                try:
                    p.kill()
                except OSError:
                    pass
                done[0] = True
    return records, errors, stopped


def replay_case(prop, case, token):
    hs = case.get('_hashseed') or '0'
    p = spawn({'mode': 'replay', 'prop': prop, 'case': case, 'token': token}, hs)
    out, err = p.communicate()
    for line in out.decode().splitlines():
        if line and line != 'BLOCK-DONE':
            try:
                return json.loads(line)
            except ValueError:
                pass
    return {'harness_error': 'replay worker produced no record: ' + err.decode()[-1500:]}


def match_known(known, prop, sig):
    import re
    for k in known.get('findings', []):
        if k['property'] == prop and k['signature'] == sig:
            return k
        if k['property'] == prop and k.get('pattern') and re.fullmatch(k['pattern'], str(sig)):
            return k
    # a minimised case that still carries several named triggers (archsim: "<prop>|<family>|t1+t2") is a known
    # finding when every one of its triggers is one on its own
    parts = str(sig).split('|')
    if len(parts) == 3 and '+' in parts[2]:
        ks = [match_known(known, prop, '|'.join(parts[:2] + [t])) for t in parts[2].split('+')]
        if all(k is not None for k in ks):
            return ks[0]
    return None


def merge_counts(dst, src):
    for k, v in (src or {}).items():
        dst[k] = dst.get(k, 0) + v


def check(prop, tier='quick', seed=0, runs=None, jobs=None, budget_s=None,
          quiet=False, write_evidence=True):
    t0 = time.time()
    jobs = jobs or int(os.environ.get('VERIF_JOBS', '0')) or min(16, os.cpu_count() or 4)
    n_runs = runs or int(os.environ.get('VERIF_RUNS', '0')) or RUNS[tier][prop]
    token = 'r%d-%d' % (os.getpid(), int(t0 * 1000) % 1000000)
    print('VERIF_SEED=%d property=%s tier=%s runs=%d jobs=%d engine=%s'
          % (seed, prop, tier, n_runs, jobs, ENGINE_OF[prop]))
    sys.stdout.flush()
    known = load_known()
    deadline = (t0 + budget_s) if budget_s else None
    records, errors, stopped = run_blocks(prop, seed, tier, n_runs, jobs, token,
                                          deadline=deadline)
    records.sort(key=lambda r: r['run'])
    probes, faults = {}, {}
    shapes = set()
    steps = 0
    sim_s = 0.0
    real_events = 0
    h_err, h_to = [], 0
    samples = []
    viols = []
    for r in records:
        merge_counts(probes, r.get('probes'))
        merge_counts(faults, r.get('faults'))
        steps += r.get('steps', 0)
        sim_s += r.get('sim_s', 0)
        real_events += r.get('real_events', 0)
        if r.get('harness_error'):
            h_err.append((r['run'], r['harness_error']))
        if r.get('harness_timeout'):
            h_to += 1
        if r.get('nontrivial') and r.get('shape'):
            shapes.add(r['shape'])
        if 'case' in r and 'viol' not in r and len(samples) < 3:
            samples.append(r['case'])
        if 'viol' in r:
            viols.append(r)
    # classify violations
    new_viols, known_hits = [], {}
    for r in records:
        merge_counts(known_hits, r.get('known_hits'))
    os.makedirs(os.path.join(VERIF, 'replays'), exist_ok=True)
    seen_sigs = {}
    for r in viols:
        sig = r['viol'].get('sig')
        k = match_known(known, prop, sig)
        if k is not None:
            known_hits[sig] = known_hits.get(sig, 0) + 1
            continue
        seen_sigs.setdefault(sig, []).append(r)
    for sig, rs in sorted(seen_sigs.items(), key=lambda kv: str(kv[0])):
        r = min(rs, key=lambda x: (len(x['case'].get('ops', [])), x['run']))
        path = os.path.join(VERIF, 'replays', '%s-%d-%d.json' % (prop, seed, r['run']))
        doc = {'property': prop, 'seed': seed, 'run': r['run'],
               'hashseed': r['hashseed'], 'violation': r['viol'], 'case': r['case']}
        doc['case']['_hashseed'] = str(r['hashseed'])
        with open(path, 'w') as f:
            json.dump(doc, f, indent=1, sort_keys=True)
        # confirm in a fresh interpreter before reporting
        rr = replay_case(prop, doc['case'], token)
        if rr.get('viol') and rr['viol'].get('class') == r['viol'].get('class'):
            new_viols.append((sig, path, r, len(rs)))
        else:
            errors.append('violation %s (run %d) did not reproduce from its replay file %s: %r'
                          % (sig, r['run'], path, rr))
    # known findings: replay the witnesses
    known_lines = []
    for k in known.get('findings', []):
        if k['property'] != prop:
            continue
        wpath = os.path.join(VERIF, k['witness'])
        try:
            with open(wpath) as f:
                doc = json.load(f)
        except (OSError, ValueError) as e:
            errors.append('known finding %s: witness unreadable: %s' % (k['signature'], e))
            continue
        rr = replay_case(prop, doc['case'], token)
        if rr.get('viol') and rr['viol'].get('sig') == k['signature']:
            known_lines.append('KNOWN-FINDING: property=%s %s [signature=%s; seen %d times in this run]'
                               % (prop, k['text'], k['signature'],
                                  known_hits.get(k['signature'], 0)))
        elif rr.get('harness_error') or rr.get('harness_timeout'):
            errors.append('known finding %s: witness replay failed: %r' % (k['signature'], rr))
    wall = time.time() - t0
    shutil.rmtree(os.path.join(scratch_base(), token), ignore_errors=True)
    n = len(records)
    for line in known_lines:
        print(line)
    for sig, path, r, cnt in new_viols:
        print('violation class=%s sig=%s run=%d (%d runs hit it; %d ops after shrinking from %d): %s'
              % (r['viol'].get('class'), sig, r['run'], cnt,
                 len(r['case'].get('ops', [])), r.get('orig_ops', -1),
                 r['viol'].get('detail', '')[:600]))
        print('VIOLATION property=%s replay=%s' % (prop, path))
    for run, e in h_err[:5]:
        print('HARNESS-ERROR run=%d: %s' % (run, e[-1500:]))
    for e in errors[:10]:
        print('HARNESS-ERROR: %s' % e)
    if h_to:
        print('HARNESS-TIMEOUT: %d runs' % h_to)
    print('summary: runs=%d steps=%d distinct_nontrivial=%d violations=%d known_hits=%d '
          'harness_errors=%d timeouts=%d wall=%.1fs (%.0f runs/hour)%s'
          % (n, steps, len(shapes), len(new_viols), sum(known_hits.values()),
             len(h_err) + len(errors), h_to, wall, n / max(wall, 1e-9) * 3600,
             ' [stopped at time budget]' if stopped else ''))
    if write_evidence and n:
        import importlib
        engine = importlib.import_module('sim.engines.' + ENGINE_OF[prop])
        info = engine.evidence_info(prop)
        cov = {
            'evaluations': n,
            'distinct_nontrivial': len(shapes),
            'rule': info['rule'],
            'samples': samples[:3] or [r['case'] for r in viols[:1]],
            'runs_per_hour': round(n / max(wall, 1e-9) * 3600),
            'seeds': 'VERIF_SEED=%d, run_index 0..%d, one PRNG stream per run; '
                     'PYTHONHASHSEED per block of %d runs' % (seed, n - 1, BLOCK),
            'total_steps': steps,
            'simulated_seconds': round(sim_s, 3),
            'intercepted_fs_sql_events': real_events,
            'faults_fired': dict(sorted(faults.items())),
            'reach_probes': dict(sorted(probes.items())),
            'components': info['components'],
            'known_finding_hits': known_hits,
            'harness_errors': len(h_err) + len(errors),
            'harness_timeouts': h_to,
            'workers': jobs,
            'stopped_at_time_budget': bool(stopped),
        }
        if LEVEL[prop] == 'fault_enumeration':
            cov['exhaustive'] = False
        ev = {
            'property_id': prop, 'tier': tier, 'seed': seed,
            'level': LEVEL[prop], 'coverage': cov,
            'assumptions': info['assumptions'],
            'wall_s': round(wall, 2), 'violations': len(new_viols),
        }
        os.makedirs(os.path.join(VERIF, 'evidence'), exist_ok=True)
        with open(os.path.join(VERIF, 'evidence', prop + '.json'), 'w') as f:
            json.dump(ev, f, indent=1, sort_keys=True)
    if new_viols:
        return 1
    if h_err or errors or h_to or not n:
        return 2
    return 0


def replay_file(prop, path):
    with open(path) as f:
        doc = json.load(f)
    token = 'p%d' % os.getpid()
    rr = replay_case(prop, doc['case'], token)
    shutil.rmtree(os.path.join(scratch_base(), token), ignore_errors=True)
    if rr.get('viol'):
        print('replay: class=%s sig=%s step=%s: %s' % (
            rr['viol'].get('class'), rr['viol'].get('sig'), rr['viol'].get('step'),
            rr['viol'].get('detail', '')[:1500]))
        known = load_known()
        k = match_known(known, prop, rr['viol'].get('sig'))
        if k is not None:
            print('KNOWN-FINDING: property=%s %s' % (prop, k['text']))
            return 0
        print('VIOLATION property=%s replay=%s' % (prop, os.path.abspath(path)))
        return 1
    if rr.get('harness_error') or rr.get('harness_timeout'):
        print('HARNESS-ERROR: %r' % rr)
        return 2
    print('replay: no violation')
    return 0
