"""JSON encoding of the Python values that appear in replay files."""
import math


class BadRepr(object):
    """an argument whose repr()/str() raises: stringmap cannot encode it"""
    def __repr__(self):
        raise RuntimeError("BadRepr has no repr")
    __str__ = __repr__

    def __eq__(self, other):
        return isinstance(other, BadRepr)

    def __hash__(self):
        return 7

    def __reduce__(self):
        return (BadRepr, ())


class Unpicklable(object):
    """an argument no pickler can serialise (and that is unhashable)"""
    __hash__ = None

    def __reduce__(self):
        raise TypeError("Unpicklable cannot be pickled")

    def __repr__(self):
        return "Unpicklable()"

    def __eq__(self, other):
        return isinstance(other, Unpicklable)


NAN = float('nan')      # ONE object per process (like math.nan): containers find it by identity


class Plain(object):
    """an ordinary object: default repr (<... at 0x...>), identity hash, no __eq__. Two live ones are different
    arguments; PLAIN holds the two the simulator passes around (the same objects on every call)"""
    def __init__(self, n):
        self.n = n


PLAIN = {1: Plain(1), 2: Plain(2)}


class F64(float):
    """a float subclass (what numpy.float64 is): equal to, hashed and printed like the float it wraps"""
    __slots__ = ()

    def __reduce__(self):
        return (F64, (float(self),))


def _has_mainthing():
    import sys
    return getattr(sys.modules.get('__main__'), 'MainThing', None) is not None


class KeyErrObj(object):
    """an argument whose repr, hash and pickling all raise KeyError (a half-initialised object reading a
    field that is not there yet): encoding it fails with the very exception a cache miss uses"""
    def __repr__(self):
        raise KeyError('field')
    __str__ = __repr__

    def __hash__(self):
        raise KeyError('id')

    def __reduce__(self):
        raise KeyError('_conn')

    def __eq__(self, other):
        return isinstance(other, KeyErrObj)


def _gen():
    yield 1


def _mainthing():
    import sys
    cls = getattr(sys.modules.get('__main__'), 'MainThing', None)
    if cls is None:
        raise ValueError('no MainThing in __main__')
    return cls(3)


SPECIAL = {
    'mainthing': _mainthing,
    'keyerr': KeyErrObj,
    'badrepr': BadRepr,
    'unpicklable': Unpicklable,
    'generator': _gen,
    'plain1': lambda: PLAIN[1],
    'plain2': lambda: PLAIN[2],
    # hash() of a writable memoryview raises ValueError (not TypeError); it cannot be pickled either
    'memview': lambda: memoryview(bytearray(b'ab')),
    'lambda': lambda: (lambda x: x),
}


_BIG = {}


def big(name):
    """large values, generated once per process: 'rep' = 1.5 MB of a repeated pair (compresses to ~2 kB),
    'hex' = 2.56 MB of pseudo-random hex digits (compresses to ~1.4 MB: more than one MiB on disk even
    in a compressed archive)"""
    if name not in _BIG:
        if name == 'rep':
            _BIG[name] = 'ab' * 750000
        elif name == 'hex':
            import hashlib
            _BIG[name] = ''.join(hashlib.sha256(str(i).encode()).hexdigest() for i in range(40000))
        else:
            raise ValueError(name)
    return _BIG[name]


def enc(v):
    """python value -> JSON-able"""
    if isinstance(v, str) and len(v) >= 1500000:
        for name in ('rep', 'hex'):
            if len(v) == len(big(name)) and v == big(name):
                return {'$big': name}
    if v is None or isinstance(v, (bool, int, str)):
        return v
    if type(v) is F64:
        return {'$F': float(v)}
    if isinstance(v, float):
        if math.isinf(v) or math.isnan(v):
            return {'$f': repr(v)}
        return v
    if isinstance(v, tuple):
        return {'$t': [enc(x) for x in v]}
    if isinstance(v, list):
        return [enc(x) for x in v]
    if isinstance(v, (bytes, bytearray)):
        return {'$b': bytes(v).hex()}
    if isinstance(v, dict):
        return {'$d': [[enc(k), enc(x)] for k, x in v.items()]}
    if isinstance(v, frozenset):
        return {'$fs': sorted((enc(x) for x in v), key=repr)}
    if isinstance(v, set):
        return {'$s': sorted((enc(x) for x in v), key=repr)}
    if type(v).__name__ == 'MainThing' and type(v).__module__ == '__main__':
        return {'$o': 'mainthing'} if _has_mainthing() else {'$r': repr(v)}
    if isinstance(v, Plain):
        return {'$o': 'plain%d' % v.n}
    if isinstance(v, KeyErrObj):
        return {'$o': 'keyerr'}
    if isinstance(v, memoryview):
        return {'$o': 'memview'}
    if isinstance(v, BadRepr):
        return {'$o': 'badrepr'}
    if isinstance(v, Unpicklable):
        return {'$o': 'unpicklable'}
    return {'$r': _safe_repr(v)}


def _safe_repr(v):
    try:
        return repr(v)[:200]
    except Exception as e:
        return '<unrepr %s>' % type(e).__name__


def dec(j):
    """JSON-able -> python value"""
    if j is None or isinstance(j, (bool, int, float, str)):
        return j
    if isinstance(j, list):
        return [dec(x) for x in j]
    if isinstance(j, dict):
        if '$t' in j:
            return tuple(dec(x) for x in j['$t'])
        if '$b' in j:
            return bytes.fromhex(j['$b'])
        if '$d' in j:
            return dict((dec(k), dec(x)) for k, x in j['$d'])
        if '$s' in j:
            return set(dec(x) for x in j['$s'])
        if '$fs' in j:
            return frozenset(dec(x) for x in j['$fs'])
        if '$f' in j:
            return NAN if j['$f'] == 'nan' else float(j['$f'])
        if '$F' in j:
            return F64(j['$F'])
        if '$big' in j:
            return big(j['$big'])
        if '$deep' in j:
            v = [1]
            for _ in range(j['$deep']):      # a list nested deeper than the recursion limit
                v = [v]
            return v
        if '$o' in j:
            return SPECIAL[j['$o']]()
        if '$r' in j:
            return j['$r']
    raise ValueError("cannot decode %r" % (j,))


import re as _re
_ADDR = _re.compile(r' at 0x[0-9a-fA-F]+')


def show(v):
    """short stable text for logs/digests (never raises)"""
    try:
        text = repr(enc(v))
        if ' at 0x' in text:
            text = _ADDR.sub(' at 0x?', text)       # memory addresses differ from process to process
        return text
    except Exception as e:
        return '<unshowable %s>' % type(e).__name__
