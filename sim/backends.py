"""Archive configurations the simulator can construct, and their domains.

A backend config is JSON: {"label": ..., "kind": dict|null|file|dir|sql,
"name": <short name inside the sandbox>, "opts": {...}}.  `make(cfg, root,
cached)` builds the klepto archive through the public constructors in
klepto.archives; calling it again on the same (cfg, root) is "a fresh handle
on the same location".
"""
import os

CATALOG = {
    'dict':      {'kind': 'dict', 'opts': {}},
    'null':      {'kind': 'null', 'opts': {}},
    'file-pkl':  {'kind': 'file', 'opts': {}},
    'file-json': {'kind': 'file', 'opts': {'protocol': 'json'}},
    'file-src':  {'kind': 'file', 'opts': {'serialized': False}},
    'dir-pkl':   {'kind': 'dir', 'opts': {}},
    'dir-json':  {'kind': 'dir', 'opts': {'protocol': 'json'}},
    'dir-fast':  {'kind': 'dir', 'opts': {'fast': True}},
    'dir-z':     {'kind': 'dir', 'opts': {'compression': 3}},
    'dir-mmap':  {'kind': 'dir', 'opts': {'memmode': 'r+'}},
    'dir-src':   {'kind': 'dir', 'opts': {'serialized': False}},
    'sql-file':  {'kind': 'sql', 'opts': {}},
    'sql-mem':   {'kind': 'sql', 'opts': {'memory': True}},
}

PERSISTENT = ['file-pkl', 'file-json', 'file-src', 'dir-pkl', 'dir-json',
              'dir-fast', 'dir-z', 'dir-mmap', 'dir-src', 'sql-file']
PICKLED = ['file-pkl', 'dir-pkl', 'dir-fast', 'dir-z', 'dir-mmap']
ALL = list(CATALOG)


def config(label, name='a'):
    c = CATALOG[label]
    return {'label': label, 'kind': c['kind'], 'name': name,
            'opts': dict(c['opts'])}


ODD_NAMES = ['%s[12]', '%s [v2]', '%s*', '%s?x', '%s.d', '\u00e4%s', '%s{a,b}']


def odd_name(rng, label, base, p=0.08):
    """archive names a user may well choose (brackets, spaces, glob characters, dots, non-ASCII);
    source-text archives are imported by name and sqlite tables are SQL identifiers: those stay plain"""
    if label in ('file-src', 'dir-src', 'dict', 'null') or label.startswith('sql') or not rng.chance(p):
        return base
    return rng.choice(ODD_NAMES) % base


def location(cfg, root):
    kind, name, opts = cfg['kind'], cfg['name'], cfg['opts']
    if cfg.get('rel'):
        root = ''        # a name relative to the current working directory
    if kind == 'file':
        if not opts.get('serialized', True):
            return os.path.join(root, name + '.py')
        ext = '.json' if isinstance(opts.get('protocol'), str) else '.pkl'
        return os.path.join(root, name + ext)
    if kind == 'dir':
        return os.path.join(root, name)
    if kind == 'sql':
        if opts.get('memory'):
            return None
        return 'sqlite:///%s?table=%s' % (os.path.join(root, 'db.sqlite'), name)
    return name


def ensure_link(cfg, root):
    """cfg['link']: the archive's path is a symbolic link (made once, before the archive is first opened) to
    a directory / file that lives elsewhere in the sandbox, e.g. a cache symlinked to shared storage"""
    kind = cfg['kind']
    if kind not in ('file', 'dir', 'sql') or cfg['opts'].get('memory') or cfg.get('rel'):
        return
    loc = location(cfg, root)
    path = loc[len('sqlite:///'):].split('?')[0] if kind == 'sql' else loc
    if os.path.lexists(path):
        return
    store = os.path.join(root, 'store-' + os.path.basename(path))
    if kind == 'dir':
        os.makedirs(store, exist_ok=True)
    os.symlink(os.path.basename(store), path)       # relative: survives copying the sandbox


def with_link(rng, label, cfg, p=0.08):
    if cfg is not None and label in PERSISTENT and rng.chance(p):
        cfg['link'] = True
    return cfg


def make(cfg, root, cached=False, seed=None):
    """build the archive (public constructor); seed = initial dict or None"""
    import klepto.archives as ka
    kind = cfg['kind']
    opts = dict(cfg['opts'])
    loc = location(cfg, root)
    if '/' in cfg['name'] and kind in ('file', 'dir'):
        os.makedirs(os.path.dirname(loc), exist_ok=True)      # an archive of the same name in another directory
    if cfg.get('link'):
        ensure_link(cfg, root)
    if kind == 'dict':
        return ka.dict_archive(loc, seed, cached)
    if kind == 'null':
        return ka.null_archive(loc, seed, cached)
    if kind == 'file':
        return ka.file_archive(loc, seed, cached, **opts)
    if kind == 'dir':
        return ka.dir_archive(loc, seed, cached, **opts)
    if kind == 'sql':
        opts.pop('memory', None)
        if loc is None:
            return ka.sqltable_archive('?table=%s' % cfg['name'], seed, cached, **opts)
        return ka.sqltable_archive(loc, seed, cached, **opts)
    raise ValueError(kind)


def is_persistent(cfg):
    return cfg['label'] in PERSISTENT


def import_based(cfg):
    return cfg['label'] in ('file-src', 'dir-src')


# ---------------------------------------------------------------------------
# value / key domains (what the backend can store losslessly)

def _is_json_lossless(v):
    if v is None or isinstance(v, (bool, int, str)):
        return True
    if isinstance(v, float):
        return v == v and v not in (float('inf'), float('-inf'))
    if isinstance(v, list):
        return all(_is_json_lossless(x) for x in v)
    if isinstance(v, dict):
        return all(isinstance(k, str) and _is_json_lossless(x) for k, x in v.items())
    return False


def _is_sql_lossless(v):
    return v is None or (isinstance(v, (int, float, str, bytes))
                         and not isinstance(v, bool)
                         and (not isinstance(v, int) or abs(v) < 2 ** 63)
                         and (not isinstance(v, float) or v == v))


def _is_src_lossless(v):
    if v is None or isinstance(v, (bool, int, str, bytes)):
        return True
    if isinstance(v, float):
        return v == v and v not in (float('inf'), float('-inf'))
    if isinstance(v, (list, tuple)):
        return all(_is_src_lossless(x) for x in v)
    if isinstance(v, dict):
        return all(_is_src_lossless(k) and _is_src_lossless(x) for k, x in v.items())
    return False


def value_ok(cfg, v):
    label = cfg['label']
    if label in ('file-json', 'dir-json'):
        return _is_json_lossless(v)
    if label.startswith('sql'):
        return _is_sql_lossless(v)
    if label in ('file-src', 'dir-src'):
        return _is_src_lossless(v)
    return True
