"""Self-tests of the machinery (not property checks).

  ./check --selftest determinism [PROP ...]   same seeds twice, different worker
                                              counts and outer hash seeds: per-run
                                              digests must be identical
  ./check --selftest mutants [NAME ...]       apply each patch in selftest/mutants/
                                              to a scratch copy of /repo and confirm
                                              that the matching quick check reports it
"""
import os
import sys
import json
import glob
import time
import shutil
import subprocess

from sim import runner
from sim.worker import ENGINE_OF, scratch_base

VERIF = os.path.dirname(os.path.dirname(os.path.abspath(__file__)))

DET_RUNS = {'C13': 96, 'C14': 128, 'C17': 32}


def determinism(props, seed):
    props = props or sorted(ENGINE_OF)
    bad = 0
    for prop in props:
        n = DET_RUNS.get(prop, 384)
        digests = []
        for (jobs, outer) in ((16, '11'), (3, '98765')):
            os.environ['PYTHONHASHSEED'] = outer
            token = 'd%d-%s-%d' % (os.getpid(), prop, jobs)
            recs, errors, _ = runner.run_blocks(prop, seed + 1000, 'quick', n, jobs, token, samples=0)
            shutil.rmtree(os.path.join(scratch_base(), token), ignore_errors=True)
            if errors:
                print('HARNESS-ERROR %s: %s' % (prop, errors[:2]))
                bad += 1
            digests.append(dict((r['run'], (r['digest'], r.get('shape'), r.get('steps'))) for r in recs))
        a, b = digests
        diff = [r for r in sorted(a) if a.get(r) != b.get(r)]
        print('determinism %s: %d runs x2 (16 workers vs 3 workers, different outer hash seeds): %d differ%s'
              % (prop, len(a), len(diff), (' -> runs %s' % diff[:8]) if diff else ''))
        sys.stdout.flush()
        if diff or len(a) != n or len(b) != n:
            bad += 1
    return 1 if bad else 0


def mutants(names, seed, seeded=False):
    mdir = os.path.join(VERIF, 'selftest', 'mutants')
    metas = []
    if seeded:
        # sub-agent changes kept under seeded/<id>/ (patch.diff, demo, meta.json)
        for f in sorted(glob.glob(os.path.join(VERIF, 'seeded', '*', 'meta.json'))):
            m = json.load(open(f))
            m['_name'] = os.path.basename(os.path.dirname(f))
            m['_patch'] = os.path.join(os.path.dirname(f), 'patch.diff')
            m.setdefault('expect', [m.get('property')])
            m.setdefault('what', m.get('summary', ''))
            if names and m['_name'] not in names:
                continue
            metas.append(m)
    else:
        for f in sorted(glob.glob(os.path.join(mdir, '*.json'))):
            m = json.load(open(f))
            m['_name'] = os.path.basename(f)[:-5]
            m['_patch'] = os.path.join(mdir, m['_name'] + '.diff')
            if names and m['_name'] not in names:
                continue
            metas.append(m)
    scratch = os.path.join(scratch_base(), 'mutant-%d' % os.getpid())
    failures = 0
    for m in metas:
        shutil.rmtree(scratch, ignore_errors=True)
        os.makedirs(scratch)
        shutil.copytree('/repo/klepto', os.path.join(scratch, 'klepto'),
                        ignore=shutil.ignore_patterns('__pycache__', 'tests'))
        patch = m['_patch']
        p = subprocess.run(['patch', '-p1', '-s', '-d', scratch, '-i', patch], stdout=subprocess.PIPE,
                           stderr=subprocess.STDOUT)
        if p.returncode != 0:
            print('mutant %s: patch does not apply: %s' % (m['_name'], p.stdout.decode()[-300:]))
            failures += 1
            continue
        caught = []
        t0 = time.time()
        for prop in m['expect']:
            env = dict(os.environ)
            env['VERIF_KLEPTO_ROOT'] = scratch
            env['VERIF_SEED'] = str(seed)
            args = [os.path.join(VERIF, 'check'), prop, '--no-evidence']
            runs = m.get('runs')
            if isinstance(runs, dict):
                runs = runs.get(prop)
            if runs:
                args += ['--runs', str(runs)]
            q = subprocess.run(args, env=env, stdout=subprocess.PIPE, stderr=subprocess.STDOUT, cwd=VERIF)
            out = q.stdout.decode()
            if q.returncode == 1 and 'VIOLATION property=%s' % prop in out:
                caught.append(prop)
                for line in out.splitlines():
                    if line.startswith('violation class='):
                        print('   %s: %s' % (prop, line[:260]))
            elif q.returncode not in (0, 1):
                print('   %s: check exited %d: %s' % (prop, q.returncode, out[-400:]))
        ok = bool(caught)
        if m.get('undetected'):
            print('mutant %-34s %s (recorded as not detected: %s)' % (m['_name'], 'NOW CAUGHT by %s' % caught if ok else 'not detected',
                                                                       m.get('note', '')[:160]))
            continue
        print('mutant %-34s %s by %s (expected one of %s) in %.0fs  -- %s'
              % (m['_name'], 'CAUGHT' if ok else 'MISSED', caught or '-', m['expect'], time.time() - t0,
                 m.get('what', '')))
        sys.stdout.flush()
        if not ok:
            failures += 1
    shutil.rmtree(scratch, ignore_errors=True)
    return 1 if failures else 0


def main(which, prop, seed, rest, args):
    names = ([prop] if prop else []) + list(rest)
    if which == 'determinism':
        return determinism(names, seed)
    if which == 'mutants':
        return mutants(names, seed)
    if which == 'seeded':
        return mutants(names, seed, seeded=True)
    print('unknown selftest %r' % which)
    return 2
