"""archsim: archive handles over sandbox locations against a dict model.

C03  every archive type refines a Python dict (sequence of mapping ops,
     siblings under other names, failing ops, copy / ==).
C04  persistence: fresh handles / rebuilt-from-state / copied / unpickled /
     forked / exec'd readers see exactly what was written.

The simulator owns: the operation sequence, the clock stamped on files and
directories (import-based readers validate .pyc files by (int mtime, size)),
directory listing order, klepto's `random` (temp names), the hash seed (per
block) and reader placement.
"""
import os
import sys
import json
import copy as _copy
import random as _random
import hashlib
import pickle
import subprocess

from sim import backends as B
from sim.values import enc, dec, show, Unpicklable
from sim.simfs import SimFS, SimClock

PROPS = ['C03', 'C04']

# --------------------------------------------------------------------------
# domains

STR_KEYS = ['k', 'key2', '(1, 3)', "('a', 3)", 'a b', 'x.y', "q'uote",
            'ab_cd', '((1,), {})', '0f3a9c', 'TASK_1', 'K_max', 'xK_yK_z',        # the last three contain the entry-directory prefix
            # text outside ASCII: latin-1 range, a decomposed (NFD) accent, a compatibility character, CJK
            'stra\u00dfe', 'e\u0301te\u0301', '\u2126', '\u65e5\u672c',
            '.cfg', 'L' * 228 + 'x']         # a hidden-file name; a name of 229 characters (still a legal file name)
IDENT_KEYS = ['d41d8cd98f', 'k1', 'ab_cd', 'Z9', 'f00', 'e3b0c44298fc1c14', 'TASK_1', 'K_max', 'stra\u00dfe', '\u65e5\u672c']
INT_KEYS = [1, 2, -7, 10 ** 12]
FLOAT_KEYS = [1.5, -0.25]
TUPLE_KEYS = [(1, 2), ('a', 1), (1, (2, 3)), ((1,), ('k', 2)), frozenset([1, 2]), frozenset([5])]   # hashable AND iterable
BYTES_KEYS = [pickle.dumps((1, 2)), pickle.dumps(('a',), 0), pickle.dumps(((3,), {}), 2)]
# source-text directory archives import K_<name>: besides identifier-like strings they take every key
# whose directory name is importable and whose real value goes to an __args__.py input file
# (ints, strings with '-', pickled keys that are stored under their md5)
DIRSRC_INPUT_KEYS = [1, 2, -7, 10 ** 12, 'q-r', pickle.dumps((1, 2)), pickle.dumps(((3,), {}), 2)]

# (a, b) pairs that a dict keeps apart; RISKY keys exercise file-name mapping
RISKY_KEYS = {
    'alias-int-str': [1, '1'],
    'alias-dash': ['a-b', 'a_b'],
    'slash': ['a/b'],
    'longname': ['L' * 300, 'L' * 299 + 'M'],
    'empty': [''],
    'dot': ['.h', '..'],
    'none': [None],
    'tempname': ['.I_x'],
}

JSON_VALUES = [0, 7, -3, 'v', 'w w', 2.5, None, True, 1, 1.0, [1, 'a', [2]], '02139',
               {'$d': [['a', 1], ['b', [1]]]}, '', 'na\u00efve \u65e5\u672c']
SQL_VALUES = [7, 'v', 2.5, None, {'$b': '0001ff'}, -3, 'w w', '', '02139', '1.10', '1e3', 1, 1.0, {'$b': '8002580300000072656371004b018671012e'}, 'na\u00efve \u65e5\u672c']
SRC_VALUES = [7, 'v', 2.5, None, 1, 1.0, '02139', '1.10', {'$t': [1, 'a']}, [1, {'$t': [2]}],
              {'$d': [['a', {'$t': [1]}]]}, {'$b': '6162'}, True, '', 'na\u00efve \u65e5\u672c']
PKL_VALUES = SRC_VALUES + [{'$t': [1, {'$t': [2, 3]}]},
                           {'$d': [[1, 'a'], [{'$t': [1, 2]}, [3]]]},
                           {'$f': 'inf'}, {'$b': '80'}, {'$b': '8002580300000072656371004b018671012e'}, {'$s': [1, 2]},      # (bytes that are themselves a complete pickle)
                           {'$fs': ['a']}, [[], {'$d': []}]]

UNENCODABLE = {
    'json': [{'$s': [1, 2]}, {'$b': '6162'}, {'$o': 'unpicklable'}],
    'sql': [[1, 2], {'$t': [1]}, {'$d': [['a', 1]]}, 2 ** 64 + 1, -(25 ** 20)],      # ints beyond sqlite's 64 bits
    'src': [{'$o': 'unpicklable'}],
    'pkl': [{'$o': 'unpicklable'}],
}


def family(label):
    if label in ('file-json', 'dir-json'):
        return 'json'
    if label.startswith('sql'):
        return 'sql'
    if label in ('file-src', 'dir-src'):
        return 'src'
    if label in ('dict', 'null'):
        return 'mem'
    return 'pkl'


def key_domain(label):
    fam = family(label)
    if label == 'dir-src':
        return [IDENT_KEYS, DIRSRC_INPUT_KEYS]
    if fam == 'json':
        return [STR_KEYS]
    if fam == 'sql':
        return [STR_KEYS, INT_KEYS, FLOAT_KEYS, BYTES_KEYS]
    return [STR_KEYS, INT_KEYS, FLOAT_KEYS, TUPLE_KEYS, BYTES_KEYS]


def value_domain(label):
    fam = family(label)
    return {'json': JSON_VALUES, 'sql': SQL_VALUES, 'src': SRC_VALUES,
            'pkl': PKL_VALUES, 'mem': PKL_VALUES}[fam]


# --------------------------------------------------------------------------
# generation

C03_OPS = [
    (14, 'set'), (8, 'get'), (5, 'del'), (4, 'contains'), (3, 'len'),
    (2, 'iter'), (2, 'keys'), (2, 'values'), (3, 'items'), (3, 'getd'),
    (4, 'pop'), (3, 'popd'), (2, 'popitem'), (3, 'popkeys'), (3, 'setdefault'),
    (5, 'update'), (2, 'update_kw'), (2, 'update_arch'), (2, 'clear'),
    (2, 'copy'), (2, 'eq'), (3, 'advance'), (2, 'fresh'), (2, 'set_bad'),
]

C04_OPS = [
    (14, 'set'), (3, 'del'), (2, 'pop'), (3, 'update'), (1, 'clear'),
    (2, 'setdefault'), (4, 'advance'), (3, 'set_mutate'),
    (10, 'reader'), (2, 'memo'), (1, 'popkeys'), (1, 'copy'),
]

READERS = [(6, 'handle'), (4, 'state'), (3, 'copy'), (4, 'pickle'),
           (4, 'fork'), (3, 'forkpickle')]


def _pick_keys(rng, label, risky):
    doms = key_domain(label)
    pool = []
    for d in doms:
        pool.extend(rng.sample(d, min(len(d), 2 + rng.below(2))))
    rng.shuffle(pool)
    pool = pool[:3 + rng.below(4)]
    tags = []
    if risky and label not in ('dir-src',):
        names = sorted(RISKY_KEYS)
        if family(label) != 'sql':
            names.remove('none')
        if family(label) == 'json':
            names.remove('alias-int-str')
        t = rng.choice(names)
        tags.append(t)
        pool.extend(RISKY_KEYS[t])
    return [enc(k) for k in pool], tags


def generate(rng, prop, tier):
    if prop == 'C04':
        label = rng.choice(B.PERSISTENT)
    else:
        label = rng.weighted([(2, 'dict'), (1, 'null')] + [(3, l) for l in B.PERSISTENT]
                             + [(2, 'sql-mem')])
    risky = rng.chance(0.06) and prop == 'C03'
    keys, risky_tags = _pick_keys(rng, label, risky)
    values = value_domain(label)
    bigvals = label not in ('file-src', 'dir-src', 'null') and rng.chance(0.035)
    mainvals = prop == 'C04' and label in ('file-pkl', 'dir-pkl') and rng.chance(0.12)
    if mainvals:
        # instances of a class defined in the writing script's __main__; the last reader is another interpreter
        values = list(values) + [{'$o': 'mainthing'}] * 4
    if bigvals:
        # values larger than one MiB (also after compression): block-wise readers/writers, several write buffers
        values = list(values) + [{'$big': 'rep'}, {'$big': 'hex'}, {'$big': 'hex'}]
    cached = (prop == 'C03' and rng.chance(0.08))
    nsib = rng.weighted([(5, 0), (4, 1), (2, 2)]) if label != 'sql-mem' else 0
    tname = B.odd_name(rng, label, 'a')
    case = {
        'engine': 'archsim', 'prop': prop,
        'backend': B.with_link(rng, label, B.config(label, tname if tname != 'a' else 'a0')),
        'cached': cached,
        'siblings': [B.config(label, 'a%d' % (i + 1)) for i in range(nsib)],
        'order': rng.choice(['sorted', 'permute', 'reverse']),
        'kseed': rng.below(1 << 30),
        'risky': risky_tags,
        'coarse_dirs': False,
        # 'sparse': the complete contents are compared only every few steps and at the end, so that the
        # harness's own reads between two operations do not hide state one operation leaves for the next
        # (results and exceptions of every operation are still compared at every step)
        'observe': rng.weighted([(7, 'full'), (3, 'sparse')]),
    }
    if nsib and (label.startswith('file') or label.startswith('dir')) and rng.chance(0.15):
        # siblings with the SAME name as the target, in other directories (run_a/memo and run_b/memo)
        for i, sc in enumerate(case['siblings']):
            sc['name'] = 'sub%d/%s' % (i + 1, case['backend']['name'])
    sites = label in B.PERSISTENT and not risky and not cached and rng.chance(0.1)
    if sites:
        # the archives are addressed by names RELATIVE to the working directory, and the process moves between
        # two directories that each hold archives under the same relative names: a fresh handle must always see
        # the store of the directory it was opened in
        case['sites'] = 2
        case['backend']['rel'] = True
        for sc in case['siblings']:
            sc['rel'] = True
    n = rng.randint(4, 30) if not rng.chance(0.1) else rng.randint(30, 70)
    if bigvals:
        n = rng.randint(4, 12)
    table = C03_OPS if prop == 'C03' else C04_OPS
    ops = []
    ncopies = 0
    copyseq = 0
    exec_used = 0
    for _ in range(n):
        kind = rng.weighted(table)
        if sites and rng.chance(0.15):
            ops.append({'op': 'site', 's': rng.below(2)})
            ncopies = 0
        tgt = rng.below(1 + nsib + ncopies) if rng.chance(0.3) else 0
        op = {'op': kind, 't': tgt}
        k = lambda: rng.choice(keys)
        v = lambda: rng.choice(values)
        if kind in ('set', 'setdefault', 'set_mutate'):
            op['k'] = k()
            op['v'] = v() if kind != 'set_mutate' else [1, 'm', [2]]
            if kind == 'set_mutate' and family(label) == 'sql':
                op['op'] = 'set'
                op['v'] = v()
            if kind == 'setdefault' and rng.chance(0.2):
                del op['v']
        elif kind in ('get', 'del', 'contains', 'pop'):
            op['k'] = k()
        elif kind in ('getd', 'popd'):
            op['k'] = k()
            op['v'] = v()
        elif kind == 'popkeys':
            op['ks'] = [k() for _ in range(rng.randint(0, 3))]
            if rng.chance(0.4):
                op['v'] = v()
        elif kind in ('update', 'update_kw'):
            op['m'] = [[k(), v()] for _ in range(rng.randint(0, 3))]
            if kind == 'update_kw':
                op['kw'] = [[rng.choice(['kwa', 'kwb']), v()]]
        elif kind in ('update_arch', 'eq'):
            if nsib + ncopies == 0:
                op = {'op': 'len', 't': 0}
            else:
                op['o'] = rng.below(1 + nsib + ncopies)
        elif kind == 'copy':
            if ncopies >= 2 or label == 'sql-mem':
                op = {'op': 'items', 't': 0}
            else:
                ncopies += 1
                copyseq += 1
                op['name'] = 'c%d' % copyseq
        elif kind == 'advance':
            op['dt'] = rng.weighted([(6, 0), (3, 1), (1, 2), (1, 3600), (1, -1)])
        elif kind == 'fresh':
            pass
        elif kind == 'set_bad':
            fam = family(label)
            if fam == 'mem' or label == 'dir-src':
                op = {'op': 'get', 't': tgt, 'k': k()}
            else:
                op['k'] = k()
                op['v'] = rng.choice(UNENCODABLE[fam])
        elif kind == 'reader':
            how = rng.weighted(READERS)
            if tier == 'thorough' and exec_used < 1 and rng.chance(0.04):
                how = 'exec'
                exec_used += 1
            if label.startswith('sql') and how in ('pickle', 'forkpickle') and not rng.chance(0.05):
                how = 'fork'      # sqlite3 connections do not pickle (known finding): sample it rarely
            op['how'] = how
        elif kind == 'memo':
            op['xs'] = [rng.randint(0, 5) for _ in range(rng.randint(1, 3))]
        if sites and (label.startswith('dir') or label.startswith('sql')) and rng.chance(0.25) \
           and op['op'] not in ('copy', 'reader', 'memo', 'fresh', 'advance', 'site'):
            # the process is somewhere else when it uses a handle it opened earlier: directory and sqlite
            # archives are bound to their location when opened (single-file archives keep the name as given)
            op['away'] = True
        ops.append(op)
    if prop == 'C04':
        ops.append({'op': 'reader', 't': 0, 'how': rng.weighted(READERS) if not mainvals else 'exec'})
    case['ops'] = ops
    return case


# --------------------------------------------------------------------------
# execution

class Mismatch(Exception):
    def __init__(self, vclass, detail):
        Exception.__init__(self, detail)
        self.vclass = vclass
        self.detail = detail


class _Repr(object):
    """what a reader in another interpreter reports for an object it cannot send back: its repr"""
    def __init__(self, text):
        self.text = text

    def __repr__(self):
        return self.text


def same(a, b):
    """value equality that also distinguishes 1 / 1.0 / True and tuple / list"""
    if isinstance(a, _Repr) or isinstance(b, _Repr):
        return repr(a) == repr(b)
    if type(a).__name__ == 'MainThing' and type(b).__name__ == 'MainThing':
        return a.n == b.n        # dill rebuilds a __main__ class by value: an equal but distinct class object
    if callable(a) and callable(b):
        try:
            return a(3) == b(3)
        except Exception:
            return False
    if type(a) is not type(b):
        return False
    if isinstance(a, (list, tuple)):
        return len(a) == len(b) and all(same(x, y) for x, y in zip(a, b))
    if isinstance(a, dict):
        if len(a) != len(b):
            return False
        for k, x in a.items():
            if k not in b:
                return False
            kb = [kk for kk in b if kk == k and type(kk) is type(k)]
            if not kb or not same(x, b[k]):
                return False
        return True
    if isinstance(a, float) and a != a:
        return b != b
    return a == b


def same_dict(a, b):
    return same(dict(a), dict(b))


def _canon_list(xs):
    return sorted((show(x) for x in xs))


class World(object):
    """the archives under test and their models"""
    def __init__(self, case, root):
        self.case = case
        self.root = root
        self.cfgs = [case['backend']] + list(case['siblings'])
        self.archs = []
        self.models = []
        self.cached = case.get('cached', False)
        self.cwd = root
        self.site = 0
        self.nbase = len(self.cfgs)
        self.site_models = {}
        if case.get('sites'):
            for i in range(case['sites']):
                os.makedirs(os.path.join(root, 'site%d' % i))
            self.cwd = os.path.join(root, 'site0')
            os.chdir(self.cwd)
        for cfg in self.cfgs:
            self.archs.append(B.make(cfg, root, cached=self.cached))
            self.models.append({})

    def switch_site(self, s):
        """move the process to the other directory and open fresh handles on the same relative names"""
        self.site_models[self.site] = self.models[:self.nbase]
        self.site = s
        self.cwd = os.path.join(self.root, 'site%d' % s)
        os.chdir(self.cwd)
        self.cfgs = self.cfgs[:self.nbase]
        self.models = self.site_models.get(s) or [{} for _ in range(self.nbase)]
        self.archs = [B.make(cfg, self.root, cached=self.cached) for cfg in self.cfgs]

    def fresh(self, i):
        cfg = self.cfgs[i]
        if cfg is None or not B.is_persistent(cfg) or self.cached:
            return False
        self.archs[i] = B.make(cfg, self.root, cached=False)
        return True


def call(fn):
    try:
        return ('ok', fn())
    except KeyError as e:
        return ('KeyError', None)
    except TypeError as e:
        return ('TypeError', str(e))
    except Exception as e:
        return (type(e).__name__, str(e)[:200])


def model_popkeys(m, ks, default):
    if default:
        return [m.pop(k, default[0]) for k in ks]
    trial = dict(m)
    for k in ks:
        trial.pop(k)         # KeyError leaves m untouched
    return [m.pop(k) for k in ks]


def do_model(m, op, w):
    k = op['op']
    if k in ('set', 'set_mutate'):
        m[dec(op['k'])] = dec(op['v'])
    elif k == 'get':
        return m[dec(op['k'])]
    elif k == 'del':
        del m[dec(op['k'])]
    elif k == 'contains':
        return dec(op['k']) in m
    elif k == 'len':
        return len(m)
    elif k == 'iter':
        return list(iter(m))
    elif k == 'keys':
        return list(m.keys())
    elif k == 'values':
        return list(m.values())
    elif k == 'items':
        return list(m.items())
    elif k == 'getd':
        return m.get(dec(op['k']), dec(op['v']))
    elif k == 'pop':
        return m.pop(dec(op['k']))
    elif k == 'popd':
        return m.pop(dec(op['k']), dec(op['v']))
    elif k == 'popitem':
        return m.popitem()
    elif k == 'popkeys':
        d = (dec(op['v']),) if 'v' in op else ()
        return model_popkeys(m, [dec(x) for x in op['ks']], d)
    elif k == 'setdefault':
        if 'v' in op:
            return m.setdefault(dec(op['k']), dec(op['v']))
        return m.setdefault(dec(op['k']))
    elif k == 'update':
        m.update(dict((dec(a), dec(b)) for a, b in op['m']))
    elif k == 'update_kw':
        m.update(dict((dec(a), dec(b)) for a, b in op['m']),
                 **dict((a, dec(b)) for a, b in op['kw']))
    elif k == 'update_arch':
        m.update(w.models[op['o']])
    elif k == 'clear':
        m.clear()
    elif k == 'eq':
        return dict_eq(m, w.models[op['o']])
    else:
        raise ValueError(k)
    return None


def do_arch(a, op, w):
    k = op['op']
    if k == 'set':
        a[dec(op['k'])] = dec(op['v'])
    elif k == 'set_mutate':
        v = dec(op['v'])
        a[dec(op['k'])] = v
        v.append('mutated-after-store')
        v[2].append('deep')
    elif k == 'get':
        return a[dec(op['k'])]
    elif k == 'del':
        del a[dec(op['k'])]
    elif k == 'contains':
        return dec(op['k']) in a
    elif k == 'len':
        return len(a)
    elif k == 'iter':
        return list(iter(a))
    elif k == 'keys':
        return list(a.keys())
    elif k == 'values':
        return list(a.values())
    elif k == 'items':
        return list(a.items())
    elif k == 'getd':
        return a.get(dec(op['k']), dec(op['v']))
    elif k == 'pop':
        return a.pop(dec(op['k']))
    elif k == 'popd':
        return a.pop(dec(op['k']), dec(op['v']))
    elif k == 'popitem':
        return a.popitem()
    elif k == 'popkeys':
        d = (dec(op['v']),) if 'v' in op else ()
        return a.popkeys([dec(x) for x in op['ks']], *d)
    elif k == 'setdefault':
        if 'v' in op:
            return a.setdefault(dec(op['k']), dec(op['v']))
        return a.setdefault(dec(op['k']))
    elif k == 'update':
        a.update(dict((dec(x), dec(y)) for x, y in op['m']))
    elif k == 'update_kw':
        a.update(dict((dec(x), dec(y)) for x, y in op['m']),
                 **dict((x, dec(y)) for x, y in op['kw']))
    elif k == 'update_arch':
        a.update(w.archs[op['o']])
    elif k == 'clear':
        a.clear()
    elif k == 'eq':
        o = w.archs[op['o']]
        r = (a == o)
        r2 = (a != o)
        if r is NotImplemented or r2 is NotImplemented or bool(r) == bool(r2):
            raise Mismatch('eq-incoherent', '== gave %r and != gave %r' % (r, r2))
        return bool(r)
    else:
        raise ValueError(k)
    return None


UNORDERED = ('iter', 'keys', 'values', 'items')


def dict_eq(a, b):
    """what `==` of two dicts gives: values compare with ==, so 1, 1.0 and True are equal (the contents checks of
    the harness are stricter: they also compare types)"""
    if len(a) != len(b):
        return False
    for k, v in a.items():
        if k not in b:
            return False
        try:
            if not (same(v, b[k]) or v == b[k]):
                return False
        except Exception:
            return False
    return True


def compare_result(op, exp, got, m_before):
    k = op['op']
    et, ev = exp
    gt, gv = got
    if k == 'set_bad':
        return
    if et != 'ok' or gt != 'ok':
        if et != gt:
            raise Mismatch('exception-mismatch',
                           '%s: dict %s, archive %s' % (show_op(op), exp_s(exp), exp_s(got)))
        return
    if k in UNORDERED:
        if _canon_list(ev) != _canon_list(gv):
            raise Mismatch('result-mismatch', '%s: dict gives %s, archive gives %s'
                           % (show_op(op), _canon_list(ev), _canon_list(gv)))
        return
    if k == 'popitem':
        # any present item is acceptable
        try:
            key, val = gv
            ok = key in m_before and same(m_before[key], val) and \
                any(kk == key and type(kk) is type(key) for kk in m_before)
        except Exception:
            ok = False
        if not ok:
            raise Mismatch('result-mismatch', 'popitem returned %s, not an item of %s'
                           % (show(gv), show(m_before)))
        return
    if not same(ev, gv):
        raise Mismatch('result-mismatch', '%s: dict gives %s, archive gives %s'
                       % (show_op(op), show(ev), show(gv)))


def exp_s(r):
    return r[0] if r[0] != 'ok' else 'returns ' + show(r[1])


def show_op(op):
    return json.dumps(op, sort_keys=True)[:300]


def observe(a):
    """contents through the public mapping surface"""
    items = list(a.items())
    d = {}
    for k, v in items:
        d[k] = v
    n = len(a)
    return d, n, len(items)


def check_contents(w, i, what):
    a, m = w.archs[i], w.models[i]
    if w.cfgs[i] is not None and w.cfgs[i]['label'] == 'null' and not w.cached:
        m = {}
    try:
        d, n, nitems = observe(a)
    except Mismatch:
        raise
    except Exception as e:
        raise Mismatch('read-raises', '%s: reading archive %d raised %s: %s (model %s)'
                       % (what, i, type(e).__name__, str(e)[:200], show(m)))
    if not same_dict(d, m) or nitems != len(m):
        cls = 'contents-mismatch' if i == w.target else 'sibling-changed'
        raise Mismatch(cls, '%s: archive %d holds %s, dict model holds %s'
                       % (what, i, show(d), show(m)))
    if n != len(m):
        raise Mismatch('len-mismatch', '%s: len(archive %d) == %d, model has %d: %s'
                       % (what, i, n, len(m), show(m)))
    for k in m:
        try:
            present = k in a
        except Exception as e:
            raise Mismatch('read-raises', '%s: %s in archive raised %s' % (what, show(k), type(e).__name__))
        if not present:
            raise Mismatch('contains-mismatch', '%s: stored key %s not "in" archive %d' % (what, show(k), i))


def read_via(w, i, how, ctx):
    """build a reader for archive i by the given placement and return its contents"""
    import dill
    cfg = w.cfgs[i]
    a = w.archs[i]
    if how == 'handle':
        r = B.make(cfg, w.root, cached=False)
        return dict(r.items()), None
    if how == 'state':
        st = a.state
        cls = type(a)
        if cfg['kind'] == 'sql':
            from klepto._archives import _sqlname
            db, table = _sqlname(a.name)
            r = cls(database=db, table=table, **st)
        elif cfg['kind'] == 'dir':
            r = cls(dirname=st['id'], **st)
        else:
            r = cls(filename=st['id'], **st)
        st2 = r.state
        if st2 != st:
            raise Mismatch('state-roundtrip', 'state %r rebuilt gives state %r' % (st, st2))
        return dict(r.items()), None
    if how == 'copy':
        r = a.copy()
        if r.state != a.state:
            raise Mismatch('state-roundtrip', 'copy() state %r != %r' % (r.state, a.state))
        return dict(r.items()), None
    if how == 'pickle':
        r = dill.loads(dill.dumps(a))
        if r.state != a.state:
            raise Mismatch('state-roundtrip', 'unpickled state %r != %r' % (r.state, a.state))
        return dict(r.items()), None
    if how in ('fork', 'forkpickle'):
        blob = dill.dumps(a) if how == 'forkpickle' else None
        rfd, wfd = os.pipe()
        sys.stdout.flush()
        pid = os.fork()
        if pid == 0:
            try:
                os.close(rfd)
                if blob is not None:
                    r = dill.loads(blob)
                else:
                    r = B.make(cfg, w.root, cached=False)
                out = {'items': [[enc(k), enc(v)] for k, v in r.items()]}
            except BaseException as e:
                out = {'error': '%s: %s' % (type(e).__name__, str(e)[:300])}
            try:
                with os.fdopen(wfd, 'wb') as f:
                    f.write(json.dumps(out).encode())
            finally:
                os._exit(0)
        os.close(wfd)
        with os.fdopen(rfd, 'rb') as f:
            data = f.read()
        os.waitpid(pid, 0)
        out = json.loads(data.decode())
        if 'error' in out:
            raise Mismatch('read-raises', 'reader in forked process failed: ' + out['error'])
        return dict((dec(k), dec(v)) for k, v in out['items']), None
    if how == 'exec':
        script = (
            "import sys, json\n"
            "sys.dont_write_bytecode = True\n"
            "sys.path.insert(0, %r)\n"
            "import klepto\n"
            "sys.dont_write_bytecode = False\n"
            "sys.path.insert(0, '')\n"
            "from sim import backends as B\n"
            "from sim.values import enc\n"
            "import os\n"
            "os.chdir(%r)\n"
            "cfg = json.loads(%r)\n"
            "r = B.make(cfg, %r, cached=False)\n"
            "print(json.dumps([[enc(k), enc(v)] for k, v in r.items()]))\n"
        ) % (os.path.dirname(os.path.dirname(os.path.dirname(os.path.abspath(__file__)))),
             w.cwd, json.dumps(cfg), w.cwd)
        env = dict(os.environ)
        env['PYTHONHASHSEED'] = str((int(env.get('PYTHONHASHSEED', '0') or 0) + 12345) % (2 ** 32))
        p = subprocess.run([sys.executable, '-c', script], env=env, cwd=w.cwd,
                           stdout=subprocess.PIPE, stderr=subprocess.PIPE, timeout=120)
        if p.returncode != 0:
            raise Mismatch('read-raises', "reader in exec'd interpreter failed: "
                           + p.stderr.decode()[-400:])
        items = json.loads(p.stdout.decode().strip().splitlines()[-1])
        return dict((dec(k), _Repr(v['$r']) if isinstance(v, dict) and '$r' in v else dec(v)) for k, v in items), None
    raise ValueError(how)


def memo_roundtrip(w, i, op, ctx):
    """decorate on the archive, call, dump, drop; re-decorate on a fresh
    handle: every call must be served (no evaluation)"""
    import klepto
    from klepto.keymaps import stringmap, hashmap
    cfg = w.cfgs[i]
    km = hashmap(algorithm='md5') if cfg['label'] == 'dir-src' else stringmap(flat=True)
    evals = []

    def fn(x):
        evals.append(x)
        return 'memo(%r)' % (x,)
    h = B.make(cfg, w.root, cached=True)
    f = klepto.inf_cache(cache=h, keymap=km)(fn)
    for x in op['xs']:
        f(x)
        w.models[i][f.key(x)] = 'memo(%r)' % (x,)
    f.dump()
    del f, h
    h2 = B.make(cfg, w.root, cached=True)
    g = klepto.inf_cache(cache=h2, keymap=km)(fn)
    del evals[:]
    for x in op['xs']:
        r = g(x)
        if r != 'memo(%r)' % (x,):
            raise Mismatch('memo-wrong-result', 're-decorated f(%r) returned %r' % (x, r))
    info = g.info()
    if evals or info.miss:
        raise Mismatch('memo-not-served', 're-decorated function re-evaluated %r (info %r) '
                       'although the results were dumped to the archive' % (evals, tuple(info)))


def execute(case, prop, ctx):
    root = ctx['root']
    clock = SimClock()
    krng = _random.Random(case['kseed'])
    from sim.prng import PRNG
    fs = SimFS(root, clock=clock, trace=False, stamp=True, order=case.get('order', 'sorted'),
               order_rng=PRNG(case['kseed']), coarse_dirs=case.get('coarse_dirs', False))
    fs.install()
    probes, faults = {}, {}
    obs_log = []
    viol = None
    step = -1

    def bump(d, k, n=1):
        d[k] = d.get(k, 0) + n
    shape = []
    try:
        with fs:
            _random.seed(case['kseed'])
            w = World(case, root)
            w.target = 0
            sparse = case.get('observe') == 'sparse'
            for step, op in enumerate(case['ops']):
                _random.seed(krng.getrandbits(32))
                kind = op['op']
                t = op.get('t', 0)
                if t >= len(w.archs) or ('o' in op and op['o'] >= len(w.archs)):
                    continue
                w.target = t
                a, m = w.archs[t], w.models[t]
                cfg = w.cfgs[t]
                if kind == 'advance':
                    clock.advance(op['dt'])
                    bump(faults, 'clock-advance-%s' % ('same-second' if op['dt'] == 0 else
                                                       'back' if op['dt'] < 0 else 'forward'))
                    continue
                if kind == 'site':
                    if case.get('sites'):
                        w.switch_site(op['s'])
                        bump(faults, 'chdir-to-other-site')
                        for i in range(len(w.archs)):
                            check_contents(w, i, 'after moving to site %d (step %d)' % (op['s'], step))
                        shape.append('site%d' % op['s'])
                    continue
                if kind == 'fresh':
                    if w.fresh(t):
                        bump(faults, 'fresh-handle')
                        check_contents(w, t, 'after re-opening (step %d)' % step)
                    continue
                if kind == 'copy':
                    if w.cached:
                        continue      # a klepto cache is a dict: copy() takes no name
                    name = op['name']
                    ccfg = dict(cfg, name=name) if cfg else None
                    dest = B.location(ccfg, root)
                    if cfg['kind'] in ('dict', 'null'):
                        dest = name
                    got = call(lambda: a.copy(dest))
                    if got[0] != 'ok':
                        raise Mismatch('copy-raises', 'copy(%r) raised %s %s' % (name, got[0], got[1]))
                    w.archs.append(got[1])
                    w.models.append(dict(m) if cfg['label'] != 'null' else {})
                    w.cfgs.append(ccfg)
                    bump(probes, 'copy')
                    for i in range(len(w.archs)):
                        check_contents(w, i, 'after copy (step %d)' % step)
                    shape.append('copy')
                    continue
                if kind == 'reader':
                    if not B.is_persistent(cfg):
                        continue
                    how = op['how']
                    d, _ = None, None
                    try:
                        d, _ = read_via(w, t, how, ctx)
                    except Mismatch:
                        raise
                    except Exception as e:
                        raise Mismatch('read-raises', 'reader (%s) raised %s: %s'
                                       % (how, type(e).__name__, str(e)[:300]))
                    bump(faults, 'reader-' + how)
                    if not same_dict(d, m):
                        raise Mismatch('reader-mismatch', 'reader (%s) sees %s, written contents are %s'
                                       % (how, show(d), show(m)))
                    shape.append('R' + how)
                    obs_log.append(['reader', how, _canon_list(d.items())])
                    continue
                if kind == 'memo':
                    if not B.is_persistent(cfg) or family(cfg['label']) == 'sql' and False:
                        continue
                    memo_roundtrip(w, t, op, ctx)
                    bump(probes, 'memo-roundtrip')
                    check_contents(w, t, 'after memo round trip (step %d)' % step)
                    shape.append('memo')
                    continue
                # ---- plain mapping operation
                m_before = dict(m)
                null = (cfg['label'] == 'null' and not w.cached)
                if kind == 'set_bad':
                    got = call(lambda: a.__setitem__(dec(op['k']), dec(op['v'])))
                    bump(faults, 'unencodable-value')
                    if got[0] == 'ok':
                        # accepted after all: the dict model stores it too
                        m[dec(op['k'])] = dec(op['v'])
                        bump(probes, 'unencodable-accepted')
                    else:
                        bump(probes, 'unencodable-rejected')
                    exp = ('ok', None)
                else:
                    if null:
                        mm = {}
                        exp = call(lambda: do_model(mm, op, w))
                        if kind == 'eq':
                            exp = ('ok', dict_eq({}, w.models[op['o']] if w.cfgs[op['o']]['label'] != 'null' else {}))
                    elif kind != 'popitem':
                        exp = call(lambda: do_model(m, op, w))
                    away = op.get('away') and case.get('sites')
                    if away:
                        os.makedirs(os.path.join(root, 'elsewhere'), exist_ok=True)
                        os.chdir(os.path.join(root, 'elsewhere'))
                        bump(faults, 'handle-used-from-another-cwd')
                    try:
                        got = call(lambda: do_arch(a, op, w))
                    except Mismatch:
                        raise
                    finally:
                        if away:
                            os.chdir(w.cwd)
                    if kind == 'popitem' and not null:
                        # any present item may be returned: the model adopts it
                        if not m:
                            exp = ('KeyError', None)
                        else:
                            exp = ('ok', None)
                            if got[0] == 'ok':
                                try:
                                    for kk in list(m):
                                        if same_key(kk, got[1][0]):
                                            del m[kk]
                                except Exception:
                                    pass
                    if exp[0] != 'ok':
                        bump(faults, 'failing-op-' + exp[0])
                compare_result(op, exp, got, m_before)
                if not sparse or step % 6 == 5 or step == len(case['ops']) - 1:
                    for i in range(len(w.archs)):
                        check_contents(w, i, 'after step %d %s' % (step, show_op(op)))
                else:
                    bump(probes, 'sparse-step-without-full-read')
                obs_log.append([kind, got[0], show(got[1]) if kind not in UNORDERED else _canon_list(got[1] or [])])
                shape.append('%s:%s:%d' % (kind, got[0], len(m)))
                if kind in ('set', 'update') and any(same_key(dec(op.get('k')), kk) for kk in m_before) \
                   and kind == 'set':
                    bump(probes, 'overwrite')
                    if clock.tick and case['backend']['label'] in ('file-src', 'dir-src'):
                        bump(probes, 'overwrite-import-based')
    except Mismatch as e:
        viol = {'class': e.vclass, 'step': step, 'detail': e.detail}
    finally:
        fs.uninstall()
    sh = hashlib.sha1(('|'.join(shape) + case['backend']['label'] + str(len(case['siblings']))).encode()).hexdigest()[:16]
    return {'viol': viol, 'probes': probes, 'faults': faults, 'steps': step + 1,
            'shape': sh, 'nontrivial': len(shape) >= 2,
            'obs_digest': hashlib.sha1(json.dumps(obs_log).encode()).hexdigest(),
            'sim_s': clock.elapsed + clock.slept, 'real_events': fs.n_events}


def same_key(a, b):
    try:
        return a == b and type(a) is type(b)
    except Exception:
        return False


# --------------------------------------------------------------------------
# shrinking hints and signatures

def simplify(case):
    """simpler variants of a failing case (config first, then values)"""
    if case.get('siblings'):
        c = _copy.deepcopy(case)
        c['siblings'] = c['siblings'][:-1]
        yield c
    if case.get('order') != 'sorted':
        c = _copy.deepcopy(case)
        c['order'] = 'sorted'
        yield c
    if case.get('cached'):
        c = _copy.deepcopy(case)
        c['cached'] = False
        yield c
    if case.get('observe') == 'sparse':
        c = _copy.deepcopy(case)
        c['observe'] = 'full'
        yield c
    if case.get('sites') and not any(op['op'] == 'site' for op in case['ops']):
        c = _copy.deepcopy(case)
        del c['sites']
        c['backend'].pop('rel', None)
        for sc in c['siblings']:
            sc.pop('rel', None)
        yield c
    src = case['backend']['label'] in ('file-src', 'dir-src')
    if src:
        # remove the "same-second rewrite" trigger if the violation does not need it: put every
        # write into its own second (a violation that survives this is not the stale-.pyc finding)
        ops, changed, fresh_second = [], False, False
        for op in case['ops']:
            if op['op'] == 'advance':
                fresh_second = op.get('dt', 0) != 0
            elif op['op'] in WRITES:
                if not fresh_second:
                    ops.append({'op': 'advance', 'dt': 1})
                    changed = True
                fresh_second = False
            ops.append(op)
        if changed:
            c = _copy.deepcopy(case)
            c['ops'] = ops
            yield c
    plain = 'k1' if case['backend']['label'] == 'dir-src' else 'k'
    seen = []
    for op in case['ops']:
        for kk in ([op['k']] if 'k' in op else []) + list(op.get('ks', [])) + [x for x, _ in op.get('m', [])]:
            if kk not in seen:
                seen.append(kk)
    for kk in seen:
        for repl in (plain, 'key2'):
            if kk == repl or repl in seen:
                continue
            c = _copy.deepcopy(case)
            for op in c['ops']:
                if op.get('k') == kk:
                    op['k'] = repl
                if 'ks' in op:
                    op['ks'] = [repl if x == kk else x for x in op['ks']]
                if 'm' in op:
                    op['m'] = [[repl if x == kk else x, y] for x, y in op['m']]
            yield c
            break
    for i, op in enumerate(case['ops']):
        if op['op'] == 'set_bad':
            # does the violation need the un-encodable value at all?
            c = _copy.deepcopy(case)
            c['ops'][i]['op'] = 'set'
            c['ops'][i]['v'] = 7
            yield c
        if op['op'] == 'update_kw':
            c = _copy.deepcopy(case)
            c['ops'][i]['op'] = 'update'
            del c['ops'][i]['kw']
            yield c
        if op['op'] in ('update', 'update_kw') and len(op.get('m', [])) == 1:
            c = _copy.deepcopy(case)
            c['ops'][i] = {'op': 'set', 't': op.get('t', 0), 'k': op['m'][0][0], 'v': op['m'][0][1]}
            yield c
        if op.get('t'):
            c = _copy.deepcopy(case)
            c['ops'][i]['t'] = 0
            yield c
        if op['op'] == 'advance' and op['dt'] not in (0,) and not src:
            c = _copy.deepcopy(case)
            c['ops'][i]['dt'] = 0
            yield c
        if 'v' in op and op['v'] not in (0, 7) and op['op'] not in ('set_bad', 'set_mutate'):
            for simple in (7, 'v'):
                if op['v'] != simple:
                    c = _copy.deepcopy(case)
                    c['ops'][i]['v'] = simple
                    yield c
        if op['op'] in ('update', 'update_kw') and len(op.get('m', [])) > 1:
            c = _copy.deepcopy(case)
            c['ops'][i]['m'] = op['m'][:-1]
            yield c
        if op['op'] == 'popkeys' and len(op.get('ks', [])) > 1:
            c = _copy.deepcopy(case)
            c['ops'][i]['ks'] = op['ks'][:-1]
            yield c
        if op['op'] == 'reader' and op.get('how') != 'handle':
            c = _copy.deepcopy(case)
            c['ops'][i]['how'] = 'handle'
            yield c


def _keys_in(case):
    ks = []
    for op in case['ops']:
        if 'k' in op:
            ks.append(dec(op['k']))
        for x in op.get('ks', []):
            ks.append(dec(x))
        for x, _ in op.get('m', []):
            ks.append(dec(x))
    return ks


WRITES = ('set', 'update', 'update_kw', 'update_arch', 'setdefault', 'set_mutate', 'del',
          'pop', 'popd', 'popitem', 'popkeys', 'clear', 'set_bad', 'memo')


def trigger(case, viol):
    """named predicate on the minimised case: which key/clock feature it needs"""
    ks = _keys_in(case)
    label = case['backend']['label']
    t = []
    strs = [k for k in ks if isinstance(k, str)]
    if label.startswith('sql') and any(k is None for k in ks):
        t.append('none-key')
    if label.startswith('dir'):
        # features of the key -> directory-name mapping only matter for directory archives
        if any('/' in k for k in strs):
            t.append('slash-in-key')
        if any(len(k) > 255 for k in strs):
            t.append('long-key')
        if any(k == '' for k in strs):
            t.append('empty-key')
        if any(k.startswith('.I_') for k in strs):
            t.append('temp-prefix-key')
        elif any(k in ('.h', '..') for k in strs):
            t.append('dot-key')
        # (a 229-character key and '.cfg' are ordinary members of the key pools since wave i: their mere presence in
        # a case is not a trigger)
    if label.startswith('dir'):
        names = {}
        for k in ks:
            if k is None or (isinstance(k, bytes) and k.startswith(pickle.PROTO)):
                continue
            names.setdefault(str(k).replace('-', '_'), set()).add((type(k).__name__, show(k)))
        if any(len(v) > 1 for v in names.values()):
            t.append('fname-alias')
    kinds = [op['op'] for op in case['ops']]
    if label in ('file-src', 'dir-src'):
        writes_in_second = 0
        for op in case['ops']:
            if op['op'] == 'advance' and op.get('dt', 0) != 0:
                writes_in_second = 0
            elif op['op'] in WRITES:
                writes_in_second += 1
                if writes_in_second >= 2:
                    t.append('same-second-rewrite')
                    break
    if 'set_bad' in kinds and not (t and label != 'file-src'):
        # (outside source-text file archives, where refusing a value is itself the known finding, an un-encodable
        # store that merely occurs in a case which already needs a key-mapping trigger is not a second trigger: the
        # shrinker cannot always remove it from sparse-observation runs. A case WITHOUT another trigger keeps it)
        t.append('unencodable')
    return '+'.join(t) or 'plain'


def backend_family(label):
    if label in ('file-src', 'dir-src'):
        return label
    return label.split('-')[0]


def signature(case, viol, prop):
    """known findings are identified by the trigger predicate their minimised
    case needs (computed from its keys / values / clock steps); a violation
    whose minimal case needs none of them is identified by class and op"""
    step = viol.get('step', -1)
    ops = case['ops']
    opk = ops[step]['op'] if 0 <= step < len(ops) else '?'
    if opk == 'reader':
        opk += ':' + ops[step].get('how', '?')
    fam = backend_family(case['backend']['label'])
    trig = trigger(case, viol)
    if trig != 'plain':
        return '%s|%s|%s' % (prop, fam, trig)
    return '%s|%s|%s|%s' % (prop, fam, viol['class'], opk)


def evidence_info(prop):
    rule = {
        'C03': 'each run = one seeded archive configuration (backend x encoding x cached x 0-2 siblings x '
               'listing order x key/value pool; 3.5% of runs add values above one MiB, 6% keys that stress the '
               'key-to-name mapping, 30% read the complete contents back only every few steps) driven by a seeded '
               'sequence of 4-70 mapping operations, clock advances and re-opens; after every operation the result/exception and the complete contents, '
               'len and membership of the target and of every sibling are compared with a plain dict. '
               'distinct = distinct (backend, sibling count, sequence of (op kind, outcome class, model size)); '
               'non-trivial = at least two mapping operations were compared',
        'C04': 'each run = one persistent archive configuration, a seeded write history (set/del/pop/update/'
               'clear/setdefault/mutate-after-store, clock advances incl. same-second rewrites) interleaved '
               'with readers placed as: new handle, rebuilt from .state, copy(), dill round trip, forked '
               'process, dill round trip into a forked process, exec\'d interpreter with another hash seed '
               '(thorough), and decorate->dump->re-decorate round trips. distinct/non-trivial as for C03',
    }[prop]
    return {
        'rule': rule,
        'components': {
            'real': ['klepto archives (dict, null, file pkl/json/source, dir pkl/json/fast/compressed/memmap/source, '
                     'sqlite3 fallback sqltable file/memory), klepto.archives.cache, dill, pox, json, pickle, '
                     'importlib (source archives), sqlite3 C library, tmpfs, fork/exec'],
            'simulated': ['operation schedule', 'file/directory mtimes (SimClock)', 'directory listing order',
                          "klepto's global random (temp names)", 'PYTHONHASHSEED per block', 'reader placement'],
            'stub_or_absent': ['sqlalchemy-backed sql_archive/sqltable_archive, hdf_archive, hdfdir_archive: '
                               'dependencies not installed, cannot run'],
        },
        'assumptions': [
            'value and key domains are restricted to what each encoding can represent losslessly (tuples are not '
            'sent through JSON, containers not through the sqlite3 fallback)',
            'shutil.rmtree is forced onto its path-based implementation so that unlink/rmdir are interceptable',
            "'' is on sys.path (file_archive(serialized=False) imports from the cwd it chdir()s into)",
            'the reference model is a plain dict; popitem may return any present item',
        ],
    }
