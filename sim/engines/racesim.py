"""racesim (C14): 2-3 client processes on one archive location under seeded,
file-system-call-granular schedules.

Every client is a real forked process (klepto's import-based readers mutate
process-global state, so threads would manufacture false alarms).  Each one
runs under the interposer in `yield` mode: before every intercepted call
(open, raw write, close, mkdir, unlink, rmdir, rename, listdir/scandir,
stat, sql execute/commit, import read) it reports the pending event and
blocks until the scheduler lets it proceed.  Exactly one client is runnable
at a time, and the scheduler's choice comes from the run's PRNG, so one seed
is one exact interleaving.  sqlite busy-waits are virtual: connections are
opened with timeout=0, 'database is locked' becomes a blocked event that is
retried when the client is scheduled again, and only after 5 simulated
seconds of blocking is the error handed to klepto.
"""
import os
import sys
import json
import copy as _copy
import select
import signal
import random as _random
import hashlib

from sim import backends as B
from sim.values import enc, dec, show
from sim.simfs import SimFS, SimClock
from sim.prng import PRNG

PROPS = ['C14']

# file_archive(serialized=False) is left out: its same-second stale-.pyc reads (C03/C04 known
# finding) would end most of its runs before any interleaving effect is seen
LABELS = ['dir-pkl', 'dir-json', 'dir-fast', 'dir-z', 'dir-mmap', 'dir-src', 'sql-file', 'sql-file',
          'file-pkl', 'file-json']

READ_OPS = [(4, 'get'), (2, 'getd'), (3, 'contains'), (2, 'len'), (3, 'keys'), (1, 'iter'), (4, 'items'), (3, 'load'),
            (1, 'values'), (2, 'iterhold')]
WRITE_KINDS = ('set', 'setdefault', 'update', 'dump', 'del', 'pop', 'discard', 'clear')
REMOVE_KINDS = ('del', 'pop', 'discard', 'clear')


def op_writes(op, allkeys=()):
    """(key, value or _ABSENT) pairs an operation writes"""
    k = op['op']
    if k == 'clear':
        return [(x, _ABSENT) for x in allkeys]
    if k in ('set', 'setdefault'):
        return [(op['k'], op['v'])]
    if k in ('update', 'dump'):
        return [(a, b) for a, b in op['m']]
    if k in REMOVE_KINDS:
        return [(op['k'], _ABSENT)]
    return []


def fam(label):
    if label.startswith('file'):
        return 'file'
    if label.startswith('sql'):
        return 'sql'
    return 'dir'


def key_names(label, n, long=False):
    if label == 'dir-src':
        return ['k%da' % i for i in range(n)]
    if long:
        # names of about 230 characters: legal file names, near the length where names get hashed
        return ['key%d' % i + 'L' * 225 for i in range(n)]
    return ['key%d' % i for i in range(n)]


def generate(rng, prop, tier):
    label = rng.choice(LABELS)
    f = fam(label)
    nkeys = rng.randint(2, 5)
    keys = key_names(label, nkeys + 14, long=rng.chance(0.08))
    pre = [{'op': 'pre', 'k': keys[i], 'v': 'init-%d' % i} for i in range(rng.randint(0, nkeys))]
    prekeys = [p['k'] for p in pre]
    long_lived = label == 'sql-file' and rng.chance(0.3)
    if long_lived and rng.chance(0.6):
        # a long-lived table (below) with at least two clients that store: housekeeping tied to row counts runs
        # inside one client's store while another one commits
        roles = rng.choice([['writer', 'writer'], ['writer', 'writer', 'reader'], ['writer', 'overwriter'],
                            ['writer', 'writer', 'writer']])
    elif f == 'file':
        roles = rng.choice([['writer', 'reader'], ['writer', 'opener'], ['writer', 'reader', 'opener'],
                            ['writer', 'opener', 'opener'], ['writer', 'reader', 'reader']])
    else:
        roles = rng.choice([['writer', 'writer'], ['writer', 'reader'], ['overwriter', 'reader'],
                            ['deleter', 'reader'], ['writer', 'opener'], ['writer', 'writer', 'reader'],
                            ['writer', 'overwriter', 'reader'], ['writer', 'reader', 'reader'],
                            ['discarder', 'writer'], ['discarder', 'writer', 'reader'],
                            ['clearer', 'reader'], ['clearer', 'reader', 'reader']])
    clients = []
    fresh = iter(keys[len(pre):])
    owned = {}
    avail = list(prekeys)
    rng.shuffle(avail)
    for ci, role in enumerate(roles):
        ops = [{'op': 'open'}]
        n = rng.randint(1, 3)
        if role == 'writer':
            mine = []
            for j in range(n):
                k = next(fresh)      # always a new key of its own (overwrites are the overwriter's role)
                mine.append(k)
                form = rng.weighted([(6, 'set'), (2, 'update'), (2, 'dump'), (1, 'setdefault')])
                if form in ('update', 'dump'):
                    # several own keys through one update() / one cache.dump()
                    m = [[k, 'c%d-%d' % (ci, j)]]
                    try:
                        k2 = next(fresh)
                        m.append([k2, 'c%d-%db' % (ci, j)])
                        mine.append(k2)
                    except StopIteration:
                        pass
                    ops.append({'op': form, 'm': m})
                else:
                    ops.append({'op': form, 'k': k, 'v': 'c%d-%d' % (ci, j)})
        elif role == 'overwriter':
            if not avail:
                k = next(fresh)
                ops.append({'op': 'set', 'k': k, 'v': 'c%d-first' % ci})
            else:
                k = avail.pop()
            for j in range(n):
                ops.append({'op': 'set', 'k': k, 'v': 'c%d-%d' % (ci, j)})
        elif role == 'deleter':
            if not avail:
                k = next(fresh)
                ops.append({'op': 'set', 'k': k, 'v': 'c%d-first' % ci})
            else:
                k = avail.pop()
            ops.append({'op': rng.choice(['del', 'pop']), 'k': k})
        elif role == 'clearer':
            # empties the archive while others read: readers may see entries go, never fail or see garbage
            if rng.chance(0.4):
                ops.append({'op': 'set', 'k': next(fresh), 'v': 'c%d-first' % ci})
            ops.append({'op': 'clear'})
        elif role == 'discarder':
            # the "remove it if it is there" idiom on a key nobody stores, followed by reads on the same handle
            ops.append({'op': 'discard', 'k': next(fresh)})
            for j in range(rng.randint(0, 2)):
                kind = rng.choice(['contains', 'len', 'get', 'keys'])
                op = {'op': kind}
                if kind in ('get', 'contains'):
                    op['k'] = rng.choice(keys[:len(pre) + 3])
                ops.append(op)
        elif role == 'reader':
            for j in range(n):
                kind = rng.weighted(READ_OPS)
                op = {'op': kind}
                if kind in ('get', 'getd', 'contains'):
                    op['k'] = rng.choice(keys[:len(pre) + 3])
                ops.append(op)
        elif role == 'opener':
            ops = [{'op': 'open', 'cached': rng.chance(0.5)}]
            if rng.chance(0.5):
                ops.append({'op': 'open', 'cached': rng.chance(0.5)})
            if rng.chance(0.4):
                ops.append({'op': 'items'})
        clients.append({'role': role, 'ops': ops})
    history = 0
    if long_lived:
        # a long-lived table whose row count is about to pass a round number while the clients run
        pre.append({'op': 'pre', 'k': 'keyH', 'v': 'init-h'})
        history = rng.choice([1000, 1000, 512, 2000]) - len(pre) - rng.randint(1, 3)
    return {'engine': 'racesim', 'prop': prop, 'backend': B.with_link(rng, label, B.config(label, B.odd_name(rng, label, 'r0')),
                                                                       0.3 if label.startswith('file') else 0.12), 'ops': pre,
            'history': history,
            'skew': [rng.weighted([(6, 0), (2, 90), (1, 3600), (1, -3600)]) for _ in clients],
            # a stalled client: once it is about to commit (sqlite) / rename its staging directory into place (dir)
            # it is not scheduled again until everybody else has finished or given up (a slow or suspended process)
            'stall': ({'c': rng.choice([i for i, r in enumerate(roles) if r in ('writer', 'overwriter', 'deleter')] or [0]),
                       'at': 'sql-commit' if f == 'sql' else 'rename'} if f != 'file' and rng.chance(0.15) else None),
            # the clients live in different PID namespaces (containers sharing a volume): os.getpid() is 1 in each
            'same_pid': rng.chance(0.1),
            'clients': clients, 'sseed': rng.below(1 << 30), 'kseed': rng.below(1 << 30),
            'sticky': rng.choice([0.2, 0.5, 0.8]), 'order': rng.choice(['sorted', 'permute'])}


# --------------------------------------------------------------------------
# client side

def _send(fd, obj):
    os.write(fd, (json.dumps(obj) + '\n').encode())


def _wait(fd):
    b = os.read(fd, 1)
    if not b:
        os._exit(9)


def do_op(state, cfg, root, op):
    k = op['op']
    if k == 'open':
        cached = op.get('cached', False)
        h = B.make(cfg, root, cached=cached)
        if not cached:
            state['a'] = h
        elif 'a' not in state:
            state['a'] = h.archive
        return None
    a = state['a']
    if k == 'set':
        a[op['k']] = op['v']
        return None
    if k == 'setdefault':
        return a.setdefault(op['k'], op['v'])
    if k == 'update':
        a.update(dict((x, y) for x, y in op['m']))
        return None
    if k == 'dump':
        c = B.make(cfg, root, cached=True)
        for x, y in op['m']:
            c[x] = y
        c.dump()
        return None
    if k == 'del':
        del a[op['k']]
        return None
    if k == 'clear':
        a.clear()
        return None
    if k == 'discard':
        try:
            del a[op['k']]
            return 'removed'
        except KeyError:
            return 'absent'

    if k == 'pop':
        return a.pop(op['k'])
    if k == 'get':
        return a[op['k']]
    if k == 'getd':
        return a.get(op['k'], '<default>')
    if k == 'iter':
        return list(iter(a))
    if k == 'iterhold':
        # a `for key in archive:` loop that is still in its first round: the iterator stays alive, half consumed,
        # while this client goes on (or idles) and the others write
        it = iter(a)
        state.setdefault('held', []).append(it)
        return [x for x in [next(it, None)] if x is not None]
    if k == 'contains':
        return op['k'] in a
    if k == 'len':
        return len(a)
    if k == 'keys':
        return list(a.keys())
    if k == 'values':
        return list(a.values())
    if k == 'items':
        return [list(x) for x in a.items()]
    if k == 'load':
        c = B.make(cfg, root, cached=True)
        c.load()
        return [list(x) for x in dict(c).items()]
    raise ValueError(k)


def client_main(idx, case, root, ev_w, go_r):
    cfg = case['backend']
    clock = SimClock(slot=idx + 1)
    skew = (case.get('skew') or [])
    if idx < len(skew):
        clock.now += skew[idx]

    def sched(kind, rel, mut):
        _send(ev_w, {'t': 'ev', 'k': kind, 'p': rel})
        _wait(go_r)
    fs = SimFS(root, clock=clock, sched=sched, order=case.get('order', 'sorted'),
               order_rng=PRNG(case['kseed'] + idx))
    fs.install()
    _random.seed(case['kseed'] * 7 + idx)
    if case.get('same_pid'):
        os.getpid = lambda: 1
    state = {}
    _send(ev_w, {'t': 'ready'})
    _wait(go_r)
    for i, op in enumerate(case['clients'][idx]['ops']):
        _send(ev_w, {'t': 'start', 'i': i})
        _wait(go_r)
        try:
            with fs:
                res = ['ok', enc(do_op(state, cfg, root, op))]
        except KeyError as e:
            res = ['KeyError', str(e)[:120]]
        except BaseException as e:
            res = ['exc', '%s: %s' % (type(e).__name__, str(e)[:160])]
        _send(ev_w, {'t': 'end', 'i': i, 'res': res, 'busy': fs.counts.get('sql-busy', 0),
                     'slept': clock.slept})
        _wait(go_r)
    _send(ev_w, {'t': 'done', 'counts': fs.counts})
    # stay alive (idle, with every handle still open) until the scheduler ends the run: a long-lived
    # process that is between two operations must not stand in anybody's way
    _wait(go_r)
    os._exit(0)


# --------------------------------------------------------------------------
# scheduler side

class Stuck(Exception):
    pass


def run_schedule(case, root, rng, max_steps=6000):
    n = len(case['clients'])
    procs = []
    sys.stdout.flush()
    for idx in range(n):
        ev_r, ev_w = os.pipe()
        go_r, go_w = os.pipe()
        pid = os.fork()
        if pid == 0:
            try:
                os.close(ev_r)
                os.close(go_w)
                for (p, er, gw) in procs:
                    os.close(er)
                    os.close(gw)
                client_main(idx, case, root, ev_w, go_r)
            except BaseException:
                import traceback
                try:
                    _send(ev_w, {'t': 'crashed', 'err': traceback.format_exc()[-800:]})
                except BaseException:
                    pass
            finally:
                os._exit(5)
        os.close(ev_w)
        os.close(go_r)
        procs.append((pid, ev_r, go_w))
    bufs = [b'' for _ in range(n)]

    def read_msg(c):
        while b'\n' not in bufs[c]:
            rl, _, _ = select.select([procs[c][1]], [], [], 60)
            if not rl:
                raise Stuck('client %d silent for 60 s (real time)' % c)
            b = os.read(procs[c][1], 1 << 16)
            if not b:
                return {'t': 'died'}
            bufs[c] += b
        line, _, rest = bufs[c].partition(b'\n')
        bufs[c] = rest
        return json.loads(line.decode())

    history = []
    schedule = []
    seq = 0
    state = ['run'] * n
    last_kind = [None] * n
    for c in range(n):
        m = read_msg(c)
        if m.get('t') != 'ready':
            raise Stuck('client %d did not start: %r' % (c, m))
    pinned = case.get('schedule')
    stall = case.get('stall') or None
    stalled = None
    cur = None
    switches = 0
    overlap = 0
    inflight = [None] * n
    try:
        while any(s == 'run' for s in state):
            runnable = [c for c in range(n) if state[c] == 'run']
            if len(schedule) >= max_steps:
                raise Stuck('no completion within %d scheduler steps' % max_steps)
            if pinned is not None and len(schedule) < len(pinned) and pinned[len(schedule)] in runnable:
                c = pinned[len(schedule)]
            elif pinned is not None:
                c = runnable[0]
            else:
                if stall and stalled is None and stall['c'] in runnable and last_kind[stall['c']] == stall['at']:
                    stalled = stall['c']
                    stall = None                     # once
                    history.append((seq, stalled, 'stalled', None, None))
                if stalled is not None and [x for x in runnable if x != stalled]:
                    runnable = [x for x in runnable if x != stalled]
                else:
                    stalled = None
                unblocked = [x for x in runnable if last_kind[x] != 'sql-blocked'] or runnable
                stay = case.get('sticky', 0.5)
                if cur in unblocked and last_kind[cur] in ('unlink', 'rmdir', 'rename', 'sql-dml', 'sql-script', 'truncated'):
                    stay = 0.25      # in-flight state exists right after these: prefer a context switch
                if cur in unblocked and rng.chance(stay):
                    c = cur
                else:
                    c = rng.choice(unblocked)
            if c != cur and cur is not None:
                switches += 1
                if inflight[cur] is not None:
                    overlap += 1
            cur = c
            schedule.append(c)
            os.write(procs[c][2], b'g')
            m = read_msg(c)
            seq += 1
            t = m.get('t')
            if t == 'ev':
                last_kind[c] = m['k']
                history.append((seq, c, 'ev', m['k'], m['p']))
            elif t == 'start':
                inflight[c] = m['i']
                history.append((seq, c, 'start', m['i'], None))
            elif t == 'end':
                inflight[c] = None
                last_kind[c] = None
                history.append((seq, c, 'end', m['i'], m))
            elif t == 'done':
                state[c] = 'done'
                history.append((seq, c, 'done', None, m))
            else:
                state[c] = 'dead'
                history.append((seq, c, 'died', None, m))
    finally:
        for (pid, er, gw) in procs:
            try:
                os.kill(pid, signal.SIGKILL)
            except OSError:
                pass
            try:
                os.waitpid(pid, 0)
            except OSError:
                pass
            os.close(er)
            os.close(gw)
    return history, schedule, switches, overlap


# --------------------------------------------------------------------------
# oracle over the recorded history

def _analyse(case, history, final):
    f = fam(case['backend']['label'])
    init = dict((p['k'], p['v']) for p in case['ops'])
    ops = {}        # (client, i) -> dict(start, end, op, res)
    for (seq, c, kind, a, b) in history:
        if kind == 'start':
            ops[(c, a)] = {'start': seq, 'end': None, 'op': case['clients'][c]['ops'][a], 'res': None, 'c': c}
        elif kind == 'end':
            ops[(c, a)]['end'] = seq
            ops[(c, a)]['res'] = b['res']
        elif kind == 'died':
            return 'client-died', 'client %d died: %r' % (c, b)
    INF = 1 << 60
    writes = {}     # key -> list of (start, end, value or ABSENT, acknowledged)
    allkeys = set(init)
    for o in ops.values():
        allkeys.update(wk for (wk, _) in op_writes(o['op']))
    allkeys = sorted(allkeys)
    for key, o in sorted(ops.items()):
        op = o['op']
        if op['op'] in WRITE_KINDS:
            ack = o['res'] is not None and o['res'][0] == 'ok'
            for (wk, val) in op_writes(op, allkeys):
                writes.setdefault(wk, []).append((o['start'], o['end'] or INF, val, ack, key))

    def allowed(k, rs, re):
        """values a read of key k spanning [rs, re] may return"""
        ws = sorted(writes.get(k, []))
        vals = []
        base = [init.get(k, _ABSENT)]
        last_end = -1
        for (s, e, v, ack, _) in ws:
            if e < rs:
                if ack and s > last_end:
                    base = [v]          # completed after everything before it: it decides
                    vals = []
                elif ack:
                    base.append(v)      # overlapped an earlier write of this key: either may have won
                else:
                    vals.append(v)      # failed write: effect may or may not be there
                last_end = max(last_end, e)
            elif s < re:
                vals.append(v)
        return base + vals

    def stable(k, rs, re):
        """key present before, during and after the read with no write touching it"""
        if k not in init:
            return False
        return not any(s < re for (s, e, v, ack, _) in writes.get(k, []))

    def ever(k, re):
        return k in init or any(s < re and v is not _ABSENT for (s, e, v, ack, _) in writes.get(k, []))

    role = [c['role'] for c in case['clients']]

    def nobody_in_flight(o):
        """at the moment operation o gave up, was every other client idle (between operations or finished)?"""
        e = o['end'] or INF
        return not any(o2['c'] != o['c'] and o2['start'] < e and (o2['end'] or INF) > e for o2 in ops.values())
    for key, o in sorted(ops.items()):
        op, res = o['op'], o['res']
        c = o['c']
        rs, re = o['start'], o['end'] or INF
        kind = op['op']
        if res is not None and res[0] != 'ok' and f == 'sql' and 'locked' in str(res[1]) and nobody_in_flight(o):
            return 'locked-by-idle-client', 'client %d (%s): %s gave up with %r after the busy timeout although no ' \
                'other client had an operation in flight: an idle process is holding a database lock' \
                % (c, role[c], json.dumps(op), res[1])
        if res is None:
            return 'client-stuck', 'operation %s of client %d never returned' % (json.dumps(op), c)
        tag = res[0]
        if kind in ('get', 'getd', 'contains', 'len', 'keys', 'iter', 'values', 'items', 'load', 'open', 'iterhold'):
            if tag == 'KeyError' and kind == 'get':
                if _ABSENT not in allowed(op['k'], rs, re):
                    return 'read-missing', 'client %d: lookup of %r raised KeyError although the key was stored ' \
                        'throughout (allowed: %s)' % (c, op['k'], _shl(allowed(op['k'], rs, re)))
                continue
            if tag != 'ok':
                if f == 'sql' and 'locked' in str(res[1]):
                    continue        # busy timeout elapsed on the simulated clock: legal, unacknowledged
                return 'reader-fails', 'client %d (%s): %s raised %s' % (c, role[c], json.dumps(op), res[1])
            val = dec(res[1])
            if kind == 'getd' and val == '<default>':
                if _ABSENT not in allowed(op['k'], rs, re):
                    return 'read-missing', 'client %d: get(%r, default) returned the default although the key was ' \
                        'stored throughout (allowed: %s)' % (c, op['k'], _shl(allowed(op['k'], rs, re)))
                continue
            if kind in ('get', 'getd'):
                if val not in [v for v in allowed(op['k'], rs, re) if v is not _ABSENT]:
                    return 'torn-read', 'client %d: lookup of %r returned %r, never stored for it (allowed: %s)' \
                        % (c, op['k'], val, _shl(allowed(op['k'], rs, re)))
            elif kind == 'contains':
                al = allowed(op['k'], rs, re)
                if val and all(v is _ABSENT for v in al):
                    return 'phantom-read', 'client %d: %r reported present, never stored' % (c, op['k'])
                if not val and _ABSENT not in al:
                    return 'read-missing', 'client %d: %r reported absent although stored throughout' % (c, op['k'])
            elif kind == 'iterhold':
                for k in val:
                    if not isinstance(k, str) or not ever(k, re):
                        return 'phantom-read', 'client %d: iteration yields key %r, never stored' % (c, k)
            elif kind in ('keys', 'iter', 'items', 'load', 'values', 'len'):
                if kind == 'len':
                    lo = sum(1 for k in init if stable(k, rs, re))
                    hi = len(set(list(init) + [k for k in writes if ever(k, re)]))
                    if not (lo <= val <= hi):
                        return 'len-impossible', 'client %d: len() == %r, possible range %d..%d' % (c, val, lo, hi)
                    continue
                if kind == 'values':
                    allv = set(init.values())
                    for k in writes:
                        allv.update(v for (s, e, v, a, _) in writes[k] if v is not _ABSENT and s < re)
                    for v in val:
                        if v not in allv:
                            return 'torn-read', 'client %d: values() contains %r, never stored' % (c, v)
                    continue
                if kind == 'iter':
                    kind = 'keys'
                got = dict((x, None) for x in val) if kind == 'keys' else dict((x[0], x[1]) for x in val)
                for k in got:
                    if not isinstance(k, str) or not ever(k, re):
                        return 'phantom-read', 'client %d: %s() reports key %r, never stored' % (c, kind, k)
                    if kind != 'keys':
                        al = [v for v in allowed(k, rs, re) if v is not _ABSENT]
                        if got[k] not in al:
                            return 'torn-read', 'client %d: %s() gives %r -> %r, never stored for it (allowed %s)' \
                                % (c, kind, k, got[k], _shl(al))
                for k in init:
                    if stable(k, rs, re) and k not in got:
                        return 'read-missing', 'client %d: %s() misses key %r that was stored throughout' % (c, kind, k)
                if f == 'file' and kind in ('items', 'load', 'keys'):
                    # single-file archive: the reader must see ONE complete dictionary that existed,
                    # i.e. the prior contents with some prefix of the (single) writer's operations applied
                    wops = sorted(((o2['start'], o2['op'], o2['res']) for o2 in ops.values()
                                   if o2['op']['op'] in WRITE_KINDS), key=lambda t: t[0])
                    if all(r is not None and r[0] == 'ok' for (_, _, r) in wops):
                        # an open() overlapping a write can re-install an older dictionary (known finding
                        # lost-write@open-overlaps-write); the file then really holds the prior contents
                        # with a SUBSET of the writes applied, so those are complete dictionaries too
                        spans = [(o2['start'], o2['end'] or INF) for o2 in ops.values()
                                 if o2['op']['op'] in WRITE_KINDS]
                        overlap = any(o2['op']['op'] == 'open' and any(o2['start'] < we and (o2['end'] or INF) > ws
                                                                       for (ws, we) in spans)
                                      for o2 in ops.values())
                        states = [dict(init)]
                        for (_, wop, _) in wops:
                            # a multi-key update()/dump() may be applied key by key: every key of the
                            # operation is one step (prefixes without an overlapping open, subsets with one)
                            for (wk, wv) in op_writes(wop):
                                nxt = []
                                for s0 in (states if overlap else states[-1:]):
                                    s = dict(s0)
                                    if wv is _ABSENT:
                                        s.pop(wk, None)
                                    else:
                                        s[wk] = wv
                                    nxt.append(s)
                                states = states + [s for s in nxt if s not in states]
                        if kind == 'keys':
                            okay = any(set(got) == set(s) for s in states)
                        else:
                            okay = any(got == s for s in states)
                        if not okay:
                            return 'torn-snapshot', 'client %d: %s() returned %r, which is none of the %d complete ' \
                                'dictionaries the file ever held: %r' % (c, kind, got, len(states), states)
        else:
            # writers / deleters must not fail either (they touch only their own keys)
            if tag != 'ok':
                if f == 'sql' and 'locked' in str(res[1]):
                    continue
                if tag == 'KeyError' and kind in ('del', 'pop'):
                    return 'writer-fails', 'client %d: %s of its own key raised KeyError' % (c, kind)
                return 'writer-fails', 'client %d (%s): %s raised %s' % (c, role[c], json.dumps(op), res[1])
    # final contents seen by a fresh handle after everybody finished
    if 'fail' in final:
        return 'final-unreadable', 'after all clients finished a fresh handle fails: %s %s' % (final['fail'], final['err'])
    fin = dict((dec(k), dec(v)) for k, v in final['items'])
    allk = set(init) | set(writes)
    for k in fin:
        if k not in allk:
            return 'phantom-final', 'final contents hold key %r that nobody stored' % (k,)
    for k in sorted(allk):
        al = allowed(k, INF - 1, INF)
        cur = fin.get(k, _ABSENT)
        if cur not in al and not any(cur == v for v in al):
            return 'lost-write', 'final value of %r is %s; acknowledged history allows %s' % (k, _sh(cur), _shl(al))
    return None


def analyse(case, history, final):
    """classify, and attach the protocol window the failure fell into: known
    findings are tied to that window, anything outside it is a new violation"""
    bad = _analyse(case, history, final)
    if bad is None:
        return None
    cls, detail = bad[0], bad[1]
    f = fam(case['backend']['label'])
    ops = {}
    for (seq, c, kind, a, b) in history:
        if kind == 'start':
            ops[(c, a)] = [seq, 1 << 60, case['clients'][c]['ops'][a], c]
        elif kind == 'end':
            ops[(c, a)][1] = seq
    m = None
    import re as _re
    mm = _re.match(r'client (\d+)', detail)
    victim = int(mm.group(1)) if mm else None
    window = ''
    if f == 'file':
        # did some client's open() (which rewrites the file) overlap another client's write?
        opens = [(s, e, c) for (s, e, op, c) in ops.values() if op['op'] == 'open']
        wrs = [(s, e, c) for (s, e, op, c) in ops.values() if op['op'] in WRITE_KINDS]
        if any(os_ < we and oe > ws and oc != wc for (os_, oe, oc) in opens for (ws, we, wc) in wrs):
            window = '@open-overlaps-write'
    else:
        # is another client's removing operation (delete / pop / overwrite: its events include
        # unlink/rmdir, or a DELETE statement) in flight during one of the failing client's operations?
        spans = [(s_, e_) for (s_, e_, op, c) in ops.values() if c == victim] if victim is not None \
            else [(0, 1 << 60)]
        kinds = ('unlink', 'rmdir') if f == 'dir' else ('sql-dml',)
        for (s_, e_, op, c) in ops.values():
            if c == victim or op['op'] not in WRITE_KINDS:
                continue
            if f == 'sql' and op['op'] not in REMOVE_KINDS:
                continue
            removing = any(kind == 'ev' and a in kinds and cc == c and s_ < seq < e_
                           for (seq, cc, kind, a, b) in history)
            if removing and any(s_ < ve and e_ > vs for (vs, ve) in spans):
                window = '@remove-window' if f == 'dir' else '@delete-during-read'
                break
    return cls + window, detail


class _Absent(object):
    def __repr__(self):
        return '<absent>'


_ABSENT = _Absent()


def _sh(v):
    return repr(v)


def _shl(vs):
    return '[' + ', '.join(repr(v) for v in vs) + ']'


def _in_child(fn):
    r, w = os.pipe()
    sys.stdout.flush()
    pid = os.fork()
    if pid == 0:
        try:
            os.close(r)
            out = fn()
            os.write(w, json.dumps(out).encode())
        except BaseException as e:
            try:
                os.write(w, json.dumps({'fail': 'child', 'err': '%s: %s' % (type(e).__name__, e)}).encode())
            except BaseException:
                pass
        finally:
            os._exit(0)
    os.close(w)
    data = b''
    while True:
        b = os.read(r, 1 << 16)
        if not b:
            break
        data += b
    os.close(r)
    os.waitpid(pid, 0)
    try:
        return json.loads(data.decode())
    except ValueError:
        return {'fail': 'child', 'err': 'no output'}


def execute(case, prop, ctx):
    root = os.path.join(ctx['root'], 'w')
    os.makedirs(root)
    cfg = case['backend']
    probes, faults = {}, {}

    def bump(d, k, n=1):
        d[k] = d.get(k, 0) + n

    def build():
        fs = SimFS(root, clock=SimClock(), order='sorted')
        fs.install()
        _random.seed(case['kseed'])
        with fs:
            a = B.make(cfg, root, cached=False)
            if case['ops']:
                a.update(dict((p['k'], p['v']) for p in case['ops']))
            for _ in range(case.get('history') or 0):
                a['keyH'] = 'init-h'          # history rows: the same value stored again and again
        return {'ok': True}
    out = _in_child(build)
    if 'fail' in out:
        return {'harness_error': 'building the prior state failed: %r' % (out,)}
    rng = PRNG(case['sseed'])
    viol = None
    try:
        history, schedule, switches, overlap = run_schedule(case, root, rng)
    except Stuck as e:
        return {'viol': {'class': 'stuck', 'step': 0, 'detail': str(e)}, 'probes': probes, 'faults': faults,
                'steps': 0, 'shape': 'stuck', 'nontrivial': True, 'obs_digest': 'stuck', 'sim_s': 0}

    def final_read():
        fs = SimFS(root, clock=SimClock(slot=7), order='sorted')
        fs.install()
        with fs:
            try:
                a = B.make(cfg, root, cached=False)
                return {'items': [[enc(k), enc(v)] for k, v in a.items()]}
            except BaseException as e:
                return {'fail': 'items', 'err': '%s: %s' % (type(e).__name__, str(e)[:200])}
    final = _in_child(final_read)
    bad = analyse(case, history, final)
    slept = 0.0
    for (seq, c, kind, a, b) in history:
        if kind == 'stalled':
            bump(faults, 'client-stalled-holding-its-transaction-or-staging-directory')
        if kind == 'ev':
            bump(faults, 'yield-' + a)
        if kind == 'end':
            slept = max(slept, b.get('slept', 0))
            if b.get('busy'):
                bump(faults, 'sql-busy-retry', b['busy'])
    bump(faults, 'context-switch', switches)
    bump(probes, 'switch-inside-another-clients-operation', overlap)
    if bad is not None:
        evs = [(seq, c, k, a) for (seq, c, k, a, b) in history if k in ('ev', 'start', 'end')]
        viol = {'class': bad[0], 'step': len(case['ops']), 'detail': bad[1] + ' | schedule %s'
                % ''.join(str(c) for c in schedule)[:300],
                'schedule': schedule,
                'trace': ['%d:c%d:%s:%s' % e for e in evs][-60:]}
    sh = hashlib.sha1(repr([(c, k, a if k == 'ev' else None) for (seq, c, k, a, b) in history]).encode()).hexdigest()[:16]
    dg = hashlib.sha1(json.dumps([[s, c, k, a if not isinstance(a, dict) else None,
                                   (b.get('res') if isinstance(b, dict) else b)]
                                  for (s, c, k, a, b) in history], sort_keys=True).encode()).hexdigest()
    return {'viol': viol, 'probes': probes, 'faults': faults, 'steps': len(schedule), 'shape': sh,
            'nontrivial': overlap > 0, 'obs_digest': dg, 'sim_s': slept, 'real_events': len(history)}


# --------------------------------------------------------------------------

def simplify(case):
    if len(case['clients']) > 2:
        for i in range(len(case['clients'])):
            c = _copy.deepcopy(case)
            del c['clients'][i]
            yield c
    for i, cl in enumerate(case['clients']):
        if len(cl['ops']) > 2:
            for j in range(1, len(cl['ops'])):
                c = _copy.deepcopy(case)
                del c['clients'][i]['ops'][j]
                yield c
    if case.get('order') != 'sorted':
        c = _copy.deepcopy(case)
        c['order'] = 'sorted'
        yield c
    if case.get('history'):
        c = _copy.deepcopy(case)
        c['history'] = 0
        yield c
    if any(case.get('skew') or []):
        c = _copy.deepcopy(case)
        c['skew'] = [0 for _ in case['clients']]
        yield c
    if case.get('stall'):
        c = _copy.deepcopy(case)
        c['stall'] = None
        yield c
    for s in (1, 2, 3, 5, 8):
        if case['sseed'] != s:
            c = _copy.deepcopy(case)
            c['sseed'] = s
            yield c


def backend_family(label):
    return label if label in ('file-src', 'dir-src') else label.split('-')[0]


def signature(case, viol, prop):
    """root-cause level: backend family, violation class, and which kind of
    conflicting writer the minimised scenario still needs"""
    roles = set(c['role'] for c in case['clients'])
    if 'clearer' in roles:
        roles = (roles - {'clearer'}) | {'deleter'}      # clear() is a series of deletes
    conflict = sorted(roles & {'overwriter', 'deleter'}) or sorted(roles & {'writer'}) or ['none']
    if 'opener' in roles or fam(case['backend']['label']) == 'file':
        conflict.append('opener')      # on a single-file archive every client's own open() rewrites the file
    return '%s|%s|%s|%s' % (prop, backend_family(case['backend']['label']), viol['class'], '+'.join(conflict))


def evidence_info(prop):
    return {
        'rule': 'each run = one scenario (dir archive in every encoding, sqlite file table, or single file; 0-5 prior '
                'entries; 2-3 clients with roles writer (set / update / cache.dump / setdefault of own new keys) / overwriter / '
                'deleter / discarder (deletes an absent key, then reads) / clearer (clear() of the whole archive, paired with '
                'readers only: entries may go, a reader still never fails or sees a value never stored) / reader (get, get-with-default, in, len, keys, '
                'iter, a half-consumed iterator that stays alive, items, values, cache.load) / opener, 1-3 operations each, every written value unique; clients that '
                'have finished stay alive and idle until the run ends; in a tenth of the runs every client reports os.getpid() == 1, as '
                'containers sharing a volume do) executed under ONE seeded schedule: the scheduler picks which client performs its '
                'next intercepted file-system/SQL call (sticky bursts, context switches biased to right after '
                'unlink/rmdir/rename/DML/each statement of an SQL script). Invoke/return events are stamped with the scheduler\'s global sequence number; '
                'the history is checked: no reader/writer operation fails, every value read was stored for that key by '
                'an operation overlapping or preceding the read, no never-stored key is reported, keys stored throughout '
                'are not missed, len() is in the possible range, a single-file reader sees one complete dictionary that '
                'existed, a sqlite busy timeout happens only while another client has an operation in flight, and a fresh '
                'handle afterwards sees every acknowledged write. total_steps = scheduler decisions. distinct = distinct (client, event kind) interleavings; '
                'non-trivial = at least one context switch landed inside another client\'s operation',
        'components': {
            'real': ['klepto dir/file/sqlite archives and cache.load(), dill, pox, json, importlib, sqlite3 C library with '
                     'real file locks, tmpfs, one real process per client'],
            'simulated': ['which client runs at every intercepted call (scheduler)', 'sqlite busy timeout (virtual time)',
                          'time.sleep in pox.rmtree retry (virtual)', 'directory listing order', "klepto's random temp names"],
            'stub_or_absent': ['sqlalchemy / hdf5 backends (not installed)'],
        },
        'assumptions': [
            'interleaving granularity is the intercepted Python-level call: calls are atomic, and C-level sequences '
            'inside one call (sqlite journal writes, importlib reading a module) are not split',
            'single-file archive: roles limited to one writer plus readers/openers, as the property states',
            'two acknowledged writes of the same key that overlap in time (clear() versus a store) may finish in either '
            'order: both outcomes are accepted',
            'a sqlite operation that ends with "database is locked" after 5 simulated seconds is a legal, '
            'unacknowledged outcome',
        ],
    }
