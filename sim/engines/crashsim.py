"""crashsim (C13): crash atomicity of archive writes.

Scenario = persistent backend x prior contents x one mutating operation.
The operation is first dry-run under the tracing interposer to obtain its N
mutating file-system / SQL events; then, for EVERY k in 0..N-1 (and, for
every raw write, additionally one strict-prefix partial write), the prior
state is restored, the operation is re-run in a forked process that is
killed (os._exit) right before event k, and a fresh process opens what is
left on the (tmpfs) disk and checks it.

Crash = real process death; what survives is the directory tree after the
first k mutating calls (process-kill semantics: page cache survives).
"""
import os
import sys
import json
import copy as _copy
import shutil
import random as _random
import hashlib

from sim import backends as B
from sim.values import enc, dec, show
from sim.simfs import SimFS, SimClock, MUTATING
from sim import native as _native

NATIVE_CAP = 160
_NKIND = {'w': 'write', 's': 'sync', 't': 'truncate', 'u': 'unlink'}

PROPS = ['C13']

LABELS = ['file-pkl', 'file-json', 'file-src', 'dir-pkl', 'dir-json', 'dir-fast', 'dir-z',
          'dir-mmap', 'dir-src', 'sql-file']

KEYS = {
    'str': ['k', 'key2', '(1, 3)', 'x.y', 'a b', 'L' * 228 + 'x', '.cfg'],
    'ident': ['k1', 'ab_cd', 'f00', 'Z9', 'd41d8cd98f'],
    'any': ['k', 'key2', 1, 2, (1, 2), ('a', 1), b'\x80\x04K\x01.', 1.5, 'L' * 228 + 'x', '.cfg'],
    'sql': ['k', 'key2', 1, 2, 1.5, b'\x80\x04K\x01.'],
}
VALUES = {
    'json': [7, 'v', 2.5, None, [1, 'a'], {'a': 1}, 'x' * 20000],
    'sql': [7, 'v', 2.5, None, b'ab', 'x' * 20000],
    'src': [7, 'v', 2.5, None, (1, 'a'), [1, (2,)], 'x' * 20000],
    'pkl': [7, 'v', 2.5, None, (1, 'a'), [1, (2,)], {'a': (1,)}, 'x' * 20000, b'\x00' * 9000],
}

OPS = [(10, 'set'), (6, 'update'), (3, 'update_from'), (5, 'del'), (4, 'pop'), (2, 'popitem'), (3, 'clear'),
       (4, 'dump'), (2, 'dump_k'), (2, 'sync'), (1, 'sync_clear'), (5, 'open'), (3, 'open_seed'),
       (2, 'setdefault'), (2, 'popkeys')]


def family(label):
    if label in ('file-json', 'dir-json'):
        return 'json'
    if label.startswith('sql'):
        return 'sql'
    if label in ('file-src', 'dir-src'):
        return 'src'
    return 'pkl'


def key_pool(label):
    if label == 'dir-src':
        return KEYS['ident']
    f = family(label)
    if f == 'json':
        return KEYS['str']
    if f == 'sql':
        return KEYS['sql']
    return KEYS['any']


def generate(rng, prop, tier):
    label = rng.choice(LABELS)
    keys = rng.sample(key_pool(label), min(len(key_pool(label)), rng.randint(2, 5)))
    vals = VALUES[family(label)]
    small = [v for v in vals if not (isinstance(v, (str, bytes)) and len(v) > 100)]
    pick_v = lambda: rng.choice(vals) if rng.chance(0.15) else rng.choice(small)
    npre = rng.randint(0, min(4, len(keys)))
    pre = [[enc(k), enc(pick_v())] for k in keys[:npre]]
    kind = rng.weighted(OPS)
    op = {'op': kind}
    anyk = lambda: enc(rng.choice(keys))
    if kind in ('set', 'setdefault'):
        op['k'], op['v'] = anyk(), enc(pick_v())
    elif kind in ('del', 'pop'):
        op['k'] = pre[rng.below(len(pre))][0] if pre and rng.chance(0.85) else anyk()
    elif kind in ('update', 'dump', 'sync', 'sync_clear', 'open_seed', 'update_from'):
        op['m'] = [[anyk(), enc(pick_v())] for _ in range(rng.randint(1, 3))]
        if kind == 'open_seed':
            op['cached'] = rng.chance(0.5)
    elif kind == 'dump_k':
        op['m'] = [[anyk(), enc(pick_v())] for _ in range(rng.randint(1, 3))]
        op['ks'] = [op['m'][0][0]]
    elif kind == 'open':
        op['cached'] = rng.chance(0.5)
    elif kind == 'popkeys':
        op['ks'] = [p[0] for p in pre[:rng.randint(0, 2)]]
    history = 0
    if label == 'sql-file' and pre and rng.chance(0.2):
        # a long-lived table: every store appends a row, so the table carries hundreds of superseded rows
        history = -(-rng.choice([530, 1100]) // len(pre))
        if rng.chance(0.7):
            op = {'op': 'open', 'cached': rng.chance(0.5)} if rng.chance(0.6) else \
                {'op': 'set', 'k': pre[0][0], 'v': enc(pick_v())}
    backend = B.with_link(rng, label, B.config(label, B.odd_name(rng, label, 'c0')), 0.12)
    # environment fault: the archive file is writable but its directory is not (a shared read-only folder, a cache
    # file pre-created in a root-owned directory) and the writer is an unprivileged user
    rodir = label.startswith('file') and not backend.get('link') and bool(pre) and rng.chance(0.1)
    # the archive file has a second name (a hard link made by somebody else: a snapshot, a shared cache)
    hardlink = label.startswith('file') and not backend.get('link') and not rodir and bool(pre) and rng.chance(0.1)
    return {'engine': 'crashsim', 'prop': prop, 'backend': backend, 'rodir': rodir, 'hardlink': hardlink,
            # the process that opens the survivor is a re-run of the same program: if that program seeds the global
            # random at start-up, it draws the same temporary names as the killed one did
            'rerun_same_seed': rng.chance(0.5),
            'history': history,
            'ops': [{'op': 'pre', 'k': k, 'v': v} for k, v in pre], 'final': op,
            'order': rng.choice(['sorted', 'permute']), 'kseed': rng.below(1 << 30)}


# --------------------------------------------------------------------------

def in_child(fn, timeout=60):
    """run fn() in a forked child; returns (exit status, decoded JSON or None)"""
    r, w = os.pipe()
    sys.stdout.flush()
    pid = os.fork()
    if pid == 0:
        code = 0
        try:
            os.close(r)
            out = fn()
            with os.fdopen(w, 'wb') as f:
                f.write(json.dumps(out).encode())
        except BaseException as e:
            try:
                import traceback
                os.write(w, json.dumps({'child_error': traceback.format_exc()[-1500:]}).encode())
            except BaseException:
                pass
            code = 4
        finally:
            os._exit(code)
    os.close(w)
    chunks = []
    while True:
        b = os.read(r, 1 << 16)
        if not b:
            break
        chunks.append(b)
    os.close(r)
    _, status = os.waitpid(pid, 0)
    code = os.WEXITSTATUS(status) if os.WIFEXITED(status) else -os.WTERMSIG(status)
    data = b''.join(chunks)
    try:
        return code, json.loads(data.decode()) if data else None
    except ValueError:
        return code, None


def model_after(pre, op):
    """(post model, touched keys) from the dict semantics of the operation"""
    m = dict(pre)
    k = op['op']
    touched = set()

    def hk(x):
        return show(x)
    if k in ('set',):
        m[dec(op['k'])] = dec(op['v'])
        touched.add(hk(dec(op['k'])))
    elif k == 'setdefault':
        kk = dec(op['k'])
        m.setdefault(kk, dec(op['v']))
        touched.add(hk(kk))
    elif k in ('del', 'pop'):
        kk = dec(op['k'])
        m.pop(kk, None)
        touched.add(hk(kk))
    elif k == 'popitem':
        touched.update(hk(x) for x in m)       # any one of them may go
        m = None                                  # post model decided per outcome
    elif k == 'clear':
        touched.update(hk(x) for x in m)
        m = {}
    elif k in ('update', 'dump', 'sync', 'open_seed', 'update_from'):
        for a, b in op['m']:
            m[dec(a)] = dec(b)
            touched.add(hk(dec(a)))
    elif k == 'dump_k':
        d = dict((dec(a), dec(b)) for a, b in op['m'])
        for a in op['ks']:
            if dec(a) in d:
                m[dec(a)] = d[dec(a)]
            touched.add(hk(dec(a)))
    elif k == 'sync_clear':
        touched.update(hk(x) for x in m)
        m = dict((dec(a), dec(b)) for a, b in op['m'])
        touched.update(hk(x) for x in m)
    elif k == 'popkeys':
        for a in op['ks']:
            m.pop(dec(a), None)
            touched.add(hk(dec(a)))
    elif k == 'open':
        pass
    return m, touched


def apply_op(cfg, root, op):
    k = op['op']
    if k in ('dump', 'dump_k', 'sync', 'sync_clear'):
        c = B.make(cfg, root, cached=True)
        for a, b in op['m']:
            c[dec(a)] = dec(b)
        if k == 'dump':
            c.dump()
        elif k == 'dump_k':
            c.dump(*[dec(a) for a in op['ks']])
        elif k == 'sync':
            c.sync()
        else:
            c.sync(clear=True)
        return None
    if k == 'open':
        B.make(cfg, root, cached=op['cached'])
        return None
    if k == 'open_seed':
        B.make(cfg, root, cached=op['cached'],
               seed=dict((dec(a), dec(b)) for a, b in op['m']))
        return None
    a = B.make(cfg, root, cached=False)
    if k == 'update_from':
        # merge another archive OBJECT of the same kind and settings (e.g. a per-worker archive) into this one
        src = B.make(dict(cfg, name='src'), root, cached=False)
        a.update(src)
        return None
    if k == 'set':
        a[dec(op['k'])] = dec(op['v'])
    elif k == 'setdefault':
        a.setdefault(dec(op['k']), dec(op['v']))
    elif k == 'del':
        try:
            del a[dec(op['k'])]
        except KeyError:
            pass
    elif k == 'pop':
        a.pop(dec(op['k']), None)
    elif k == 'popitem':
        try:
            a.popitem()
        except KeyError:
            pass
    elif k == 'clear':
        a.clear()
    elif k == 'update':
        a.update(dict((dec(x), dec(y)) for x, y in op['m']))
    elif k == 'popkeys':
        a.popkeys([dec(x) for x in op['ks']], None)
    return None


def read_back(cfg, root):
    """what a new process sees; every accessor must work"""
    out = {}
    try:
        a = B.make(cfg, root, cached=False)
    except BaseException as e:
        return {'fail': 'open', 'err': '%s: %s' % (type(e).__name__, str(e)[:200])}
    for name, fn in (('len', lambda: len(a)), ('keys', lambda: list(a.keys())),
                     ('items', lambda: list(a.items())), ('asdict', lambda: a.__asdict__())):
        try:
            out[name] = fn()
        except BaseException as e:
            return {'fail': name, 'err': '%s: %s' % (type(e).__name__, str(e)[:200])}
    try:
        c = B.make(cfg, root, cached=True)
        c.load()
        loaded = dict(c)
    except BaseException as e:
        return {'fail': 'cache.load', 'err': '%s: %s' % (type(e).__name__, str(e)[:200])}
    items = out['items']
    if len(items) != out['len'] or len(out['asdict']) != len(items) or len(loaded) != len(items):
        return {'fail': 'incoherent', 'err': 'len %d, items %d, asdict %d, load %d'
                % (out['len'], len(items), len(out['asdict']), len(loaded))}
    return {'items': [[enc(k), enc(v)] for k, v in items]}


def evaluate(pre, post, touched, seen, op):
    """the C13 oracle on what the fresh process saw"""
    if 'fail' in seen:
        cls = 'open-raises' if seen['fail'] == 'open' else 'read-raises'
        return cls, '%s failed after the crash: %s' % (seen['fail'], seen['err'])
    got = dict((show(dec(k)), (dec(k), dec(v))) for k, v in seen['items'])
    prem = dict((show(k), v) for k, v in pre.items())
    postm = dict((show(k), v) for k, v in post.items()) if post is not None else None
    for hk, (k, v) in got.items():
        if hk not in prem and (postm is None or hk not in postm):
            return 'phantom-key', 'key %s was never stored (contents now %s)' % (hk, sorted(got))
    for hk, v in prem.items():
        if hk not in touched:
            if hk not in got:
                return 'lost-untouched', 'untouched key %s is gone (had %s)' % (hk, show(v))
            if not _same(got[hk][1], v):
                return 'untouched-changed', 'untouched key %s: %s -> %s' % (hk, show(v), show(got[hk][1]))
    if op['op'] == 'popitem':
        missing = [hk for hk in prem if hk not in got]
        if len(missing) > 1:
            return 'lost-untouched', 'popitem crash removed %d keys: %s' % (len(missing), missing)
        for hk in got:
            if not _same(got[hk][1], prem[hk]):
                return 'touched-garbage', 'key %s changed to %s' % (hk, show(got[hk][1]))
        return None
    for hk in touched:
        old = prem.get(hk, _ABSENT)
        new = postm.get(hk, _ABSENT)
        cur = got[hk][1] if hk in got else _ABSENT
        if op['op'] == 'sync_clear' and cur is _ABSENT:
            continue      # sync(clear=True) is clear() followed by dump(): the cleared state is a legal intermediate
        if not (_same(cur, old) or _same(cur, new)):
            return 'touched-garbage', 'touched key %s holds %s; previous %s, new %s' % (
                hk, _sh(cur), _sh(old), _sh(new))
    return None


class _Absent(object):
    def __repr__(self):
        return '<absent>'


_ABSENT = _Absent()


def _sh(v):
    return '<absent>' if v is _ABSENT else show(v)


def _same(a, b):
    if a is _ABSENT or b is _ABSENT:
        return a is b
    if type(a) is not type(b):
        return False
    if isinstance(a, (list, tuple)):
        return len(a) == len(b) and all(_same(x, y) for x, y in zip(a, b))
    return a == b


def execute(case, prop, ctx):
    root = ctx['root']
    cfg = case['backend']
    op = case['final']
    pre = dict((dec(o['k']), dec(o['v'])) for o in case['ops'])
    post, touched = model_after(pre, op)
    snap = os.path.join(root, 'snap')
    work = os.path.join(root, 'w')
    probes, faults = {}, {}
    from sim.prng import PRNG

    def bump(d, k, n=1):
        d[k] = d.get(k, 0) + n

    def armed(workroot, **kw):
        clock = SimClock()
        fs = SimFS(workroot, clock=clock, order=case.get('order', 'sorted'),
                   order_rng=PRNG(case['kseed']), **kw)
        fs.install()
        _random.seed(case['kseed'])
        return fs

    # 1. prior state, built by a separate process
    os.makedirs(snap)

    def build():
        fs = armed(snap)
        with fs:
            a = B.make(cfg, snap, cached=False)
            if pre:
                a.update(pre)
                for _ in range(case.get('history') or 0):
                    a.update(pre)           # re-store the same contents: history rows, same dictionary
            if op['op'] == 'update_from':
                src = B.make(dict(cfg, name='src'), snap, cached=False)
                src.update(dict((dec(x), dec(y)) for x, y in op['m']))
        return {'ok': True}
    code, out = in_child(build)
    if code != 0:
        return {'harness_error': 'building the prior state failed: %r' % (out,)}

    rodir = bool(case.get('rodir')) and os.getuid() == 0
    if case.get('rodir') and not rodir:
        bump(probes, 'readonly-directory-fault-needs-root')

    def restore():
        if os.path.isdir(work):
            os.chmod(work, 0o755)
        shutil.rmtree(work, ignore_errors=True)
        shutil.copytree(snap, work, symlinks=True)
        # copytree keeps mtimes (copystat); directories too
        if case.get('hardlink'):
            loc = B.location(cfg, work)
            if os.path.isfile(loc):
                os.link(loc, loc + '.snapshot')
        if rodir:
            loc = B.location(cfg, work)
            if os.path.isfile(loc):
                os.chmod(loc, 0o666)
            os.chmod(work, 0o555)

    def demote():
        """the writer is an ordinary user (root ignores directory modes)"""
        if rodir:
            os.setgroups([])
            os.setgid(65534)
            os.setuid(65534)

    wcfg = cfg
    # the archive location is relative to the sandbox root: run in `work` by renaming roots
    # (locations are computed from the root passed to B.make, so snap and work differ only in prefix)

    # 2. dry run with tracing
    restore()

    def dry():
        demote()
        fs = armed(work, trace=True)
        with fs:
            apply_op(wcfg, work, op)
        return {'log': [list(e) for e in fs.log if e[0] in MUTATING]}
    code, out = in_child(dry)
    if code != 0 or out is None or 'log' not in out:
        return {'harness_error': 'dry run failed: %r' % (out,)}
    events = out['log']
    # sanity: after the complete operation a fresh process sees the post model
    code, seen = in_child(lambda: _reader(wcfg, work, case))
    viol = None
    if code != 0 or seen is None:
        return {'harness_error': 'reader failed after dry run: %r' % (seen,)}
    if post is not None:
        bad = evaluate(pre, post, touched, seen, op)
        # a complete run must give exactly the new state: handled by C03/C04; here only as a guard
    points = []
    for k, ev in enumerate(events):
        points.append((k, None))
        if ev[0] == 'write' and len(ev) > 2 and ev[2] > 1:
            points.append((k, 0.5))
    if case.get('crash') is not None:
        points = [(case['crash']['k'], case['crash'].get('partial'))] if case['crash'].get('k') is not None else []
    n_checked = 0
    known_hits = {}
    kinds_seen = set()
    for (k, partial) in points:
        if k >= len(events):
            continue
        restore()

        def crashing():
            demote()
            fs = armed(work, crash_at=k, crash_partial=partial)
            with fs:
                apply_op(wcfg, work, op)
            return {'finished': True}
        code, out = in_child(crashing)
        if code != 137:
            return {'harness_error': 'crash point %d (%s) did not fire: exit %r %r'
                    % (k, events[k], code, out)}
        ev = events[k]
        bump(faults, 'crash-before-%s%s' % (ev[0], '-partial' if partial else ''))
        if rodir:
            bump(faults, 'crash-with-unwritable-directory')
        if case.get('hardlink'):
            bump(faults, 'crash-with-hard-linked-archive-file')
        kinds_seen.add((ev[0], bool(partial)))
        code, seen = in_child(lambda: _reader(wcfg, work, case))
        if code != 0 or seen is None:
            return {'harness_error': 'reader process failed: %r' % (seen,)}
        n_checked += 1
        bad = evaluate(pre, post if post is not None else pre, touched, seen, op)
        if bad is not None:
            prev = events[k - 1][0] if k > 0 else 'start'
            v_ = {'class': bad[0], 'window': '%s>%s' % (prev, ev[0])}
            sig_ = signature(case, v_, prop)
            if sig_ in ctx.get('known', ()) and case.get('crash') is None:
                # an already recorded finding: count it and keep enumerating the later crash points
                known_hits[sig_] = known_hits.get(sig_, 0) + 1
                continue
            viol = {'class': bad[0], 'step': len(case['ops']),
                    'detail': 'killed before event %d/%d (%s %s%s) of %s on %s with prior contents %s: %s'
                              % (k, len(events), ev[0], ev[1], ', after a partial write' if partial else '',
                                 json.dumps(op, sort_keys=True)[:200], cfg['label'], show(pre), bad[1]),
                    'crash': {'k': k, 'partial': partial}, 'window': '%s>%s' % (prev, ev[0]),
                    'events': [e[0] for e in events]}
            break
    # 3. crash points INSIDE the sqlite C library (journal / page writes, syncs, journal delete), through the
    #    preloaded native shim: Python sees one event for a whole statement or commit, the kernel sees many
    native_n = 0
    L = _native.lib() if cfg['label'] == 'sql-file' else None
    if L is not None and viol is None:
        L.verif_prefix(os.path.realpath(work).encode())
        restore()

        def count():
            fs = armed(work)
            with fs:
                L.verif_arm(-1, 0)
                apply_op(wcfg, work, op)
                n = L.verif_count()
                L.verif_disarm()
            return {'kinds': ''.join(chr(L.verif_kind(i) or 63) for i in range(min(n, 8192)))}
        code, out = in_child(count)
        if code != 0 or out is None or 'kinds' not in out:
            return {'harness_error': 'native dry run failed: %r' % (out,)}
        nk = out['kinds']
        npoints = []
        for k, ch in enumerate(nk):
            npoints.append((k, 0))
            if ch == 'w':
                npoints.append((k, 1))
        if len(npoints) > NATIVE_CAP:
            stride = len(npoints) / float(NATIVE_CAP)
            npoints = [npoints[int(i * stride)] for i in range(NATIVE_CAP)]
        if case.get('crash') is not None:
            npoints = [(case['crash']['native'], case['crash'].get('partial') or 0)] \
                if case['crash'].get('native') is not None else []
        for (k, partial) in npoints:
            if k >= len(nk):
                continue
            restore()

            def ncrashing():
                fs = armed(work)
                with fs:
                    L.verif_arm(k, 1 if partial else 0)
                    apply_op(wcfg, work, op)
                return {'finished': True}
            code, out = in_child(ncrashing)
            if code != 137:
                return {'harness_error': 'native crash point %d (%s) did not fire: exit %r %r'
                        % (k, nk[k], code, out)}
            name = _NKIND.get(nk[k], nk[k])
            bump(faults, 'crash-inside-sqlite-before-%s%s' % (name, '-partial' if partial else ''))
            code, seen = in_child(lambda: _reader(wcfg, work, case))
            if code != 0 or seen is None:
                return {'harness_error': 'reader process failed: %r' % (seen,)}
            n_checked += 1
            native_n += 1
            bad = evaluate(pre, post if post is not None else pre, touched, seen, op)
            if bad is not None:
                win = 'sqlite-c>%s' % name
                viol = {'class': bad[0], 'step': len(case['ops']),
                        'detail': 'killed inside the sqlite library before system call %d/%d (%s%s) of %s on %s with '
                                  'prior contents %s: %s'
                                  % (k, len(nk), name, ', after half of the buffer was written' if partial else '',
                                     json.dumps(op, sort_keys=True)[:200], cfg['label'], show(pre)[:300], bad[1]),
                        'crash': {'native': k, 'partial': partial}, 'window': win,
                        'events': [e[0] for e in events]}
                break
        bump(probes, 'crash-points-inside-sqlite', native_n)
        events = events + [['native', nk]]
    elif cfg['label'] == 'sql-file' and L is None:
        bump(probes, 'native-shim-absent', 1)
    bump(probes, 'crash-points', n_checked)
    bump(probes, 'scenarios-with-partial-write', 1 if any(p for _, p in points) else 0)
    shape = hashlib.sha1(repr((cfg['label'], op['op'], len(pre), [e[0] for e in events],
                               sorted(type(x).__name__ for x in pre))).encode()).hexdigest()[:16]
    return {'viol': viol, 'probes': probes, 'faults': faults, 'steps': n_checked, 'shape': shape,
            'nontrivial': n_checked > 0, 'known_hits': known_hits,
            'obs_digest': hashlib.sha1(json.dumps([events, n_checked, viol and viol['detail']]).encode()).hexdigest(),
            'sim_s': 0, 'real_events': len(events) * max(1, n_checked)}


def _reader(cfg, work, case):
    from sim.prng import PRNG
    fs = SimFS(work, clock=SimClock(), order=case.get('order', 'sorted'), order_rng=PRNG(case['kseed'] + 1))
    fs.install()
    if case.get('rerun_same_seed'):
        _random.seed(case['kseed'])
    with fs:
        return read_back(cfg, work)


# --------------------------------------------------------------------------

def simplify(case):
    op = case['final']
    for i, o in enumerate(case['ops']):
        if o['v'] not in (7, 'v'):
            c = _copy.deepcopy(case)
            c['ops'][i]['v'] = 7
            yield c
    if 'm' in op and len(op['m']) > 1:
        c = _copy.deepcopy(case)
        c['final']['m'] = op['m'][:-1]
        yield c
    if 'm' in op:
        for i, (a, b) in enumerate(op['m']):
            if b not in (7, 'v'):
                c = _copy.deepcopy(case)
                c['final']['m'][i][1] = 'v'
                yield c
    if 'v' in op and op['v'] not in (7, 'v'):
        c = _copy.deepcopy(case)
        c['final']['v'] = 'v'
        yield c
    if case.get('order') != 'sorted':
        c = _copy.deepcopy(case)
        c['order'] = 'sorted'
        yield c
    if op.get('cached'):
        c = _copy.deepcopy(case)
        c['final']['cached'] = False
        yield c
    if case.get('history'):
        c = _copy.deepcopy(case)
        c['history'] = 0
        yield c


def backend_family(label):
    return label if label in ('file-src', 'dir-src') else label.split('-')[0]


_PHASE = {'unlink': 'rm', 'rmdir': 'rm', 'rename': 'mv', 'mkdir': 'wr', 'open-w': 'wr', 'truncated': 'wr', 'write': 'wr',
          'close-w': 'wr', 'sql-dml': 'sql', 'sql-commit': 'sql', 'sql-script': 'sql', 'start': 'start'}


def signature(case, viol, prop):
    """root-cause level: which step of the write protocol the process died between
    (rm = unlink/rmdir of old data, wr = creating new data, mv = rename into place)"""
    a, _, b = viol.get('window', '?>?').partition('>')
    window = '%s>%s' % (_PHASE.get(a, a), _PHASE.get(b, b))
    return '%s|%s|%s|%s' % (prop, backend_family(case['backend']['label']), viol['class'], window)


def evidence_info(prop):
    return {
        'rule': 'each run = one scenario (persistent backend x encoding x 0-4 prior entries x one mutating operation: '
                'set/update/del/pop/popitem/clear/setdefault/popkeys on the archive, dump/dump(k)/sync/sync(clear) from a '
                'cached handle, opening with cached False/True with or without a seed dict). The operation is traced once; '
                'then for EVERY mutating event k (mkdir, open-for-write, raw write, close, unlink, rmdir, rename, sql DML, '
                'sql commit) the prior state is restored and the operation re-run in a process killed right before '
                'event k; every raw write of more than one byte additionally gets a strict-prefix partial-write crash. '
                'For the sqlite file archive the same is then done INSIDE the C library: a preloaded native shim counts '
                'the write/pwrite/fsync/fdatasync/ftruncate/unlink system calls sqlite issues on files of the sandbox '
                '(journal creation, journal and page writes, syncs, journal delete) and the operation is re-run once per '
                'call, killed right before it, and once more per write with half of the buffer written (at most 160 '
                'such points per scenario, evenly spaced when there are more). A tenth of the single-file scenarios run under '
                'an environment fault: the archive file is writable (0666) but its directory is not (0555) and the traced '
                'and crashing writer is demoted to uid 65534 (the survivor is still read by a fresh privileged process); another '
                'tenth give the archive file a second hard-linked name. A '
                'fresh process then opens the archive: open/len/keys/items/__asdict__/cache.load() must not raise, '
                'touched keys hold the previous or the new value (or absence), untouched keys are unchanged, no other key '
                'exists. total_steps = crash points executed. distinct = distinct (backend, operation, prior size and '
                'key types, event-kind sequence); crash points are exhaustive per scenario, scenarios are sampled',
        'components': {
            'real': ['klepto file/dir/sqlite archives and klepto.archives.cache, dill, pox, json, sqlite3 C library '
                     '(journal and commit run for real), tmpfs, fork and process death (os._exit / _exit in the shim)'],
            'simulated': ['crash instant (index of the mutating Python-level call, or of the system call inside sqlite; '
                          'partial write length)', 'directory listing order',
                          "klepto's random temp names", 'file mtimes'],
            'stub_or_absent': ['sqlalchemy / hdf5 backends (not installed)'],
        },
        'assumptions': [
            'process-kill semantics: everything written before the crash instant is visible afterwards (no power-loss / '
            'fsync model)',
            'crash points inside the sqlite library need a C compiler at check time (sim/native/crashshim.c is built '
            'into a scratch directory and preloaded into the workers); without one only the Python-level points run and '
            'the probe native-shim-absent counts the scenarios affected',
            'the unwritable-directory fault needs the check to run as root (setuid to an unprivileged uid); otherwise the '
            'probe readonly-directory-fault-needs-root counts the scenarios that ran without it',
            'the shim sees write, pwrite, pwrite64, fsync, fdatasync, ftruncate and unlink; memory-mapped I/O and '
            'other calls are not crash points (sqlite uses none of them in its default configuration)',
            'bytecode (.pyc) writes by the import system are not intercepted (they use write-to-temp + replace)',
        ],
    }
