"""sessions (C17): keys are stable across interpreter sessions.

A run is a chain of 2-3 freshly exec'd interpreters sharing one persistent
archive.  The scheduler gives every session its own PYTHONHASHSEED, its own
process state (extra imports, unrelated earlier cache traffic, junk objects,
another cwd) and its own spelling of every call (keyword order permuted,
defaults spelled out or omitted, positional vs keyword).  Session 1 decorates,
calls and dumps; later sessions re-decorate on the same location and repeat
the calls.  Oracle: f.key(...) of every call is byte-identical in all
sessions, and in later sessions nothing is evaluated (every first use of a
key is a load).
"""
import os
import sys
import json
import copy as _copy
import hashlib
import subprocess

from sim import backends as B
from sim.values import enc, dec, show
from sim.prng import PRNG
from sim.engines import memosim as M

PROPS = ['C17']
SHRINK_BUDGET = 40
SESSION_MAIN = os.path.join(os.path.dirname(os.path.dirname(os.path.abspath(__file__))), 'session_main.py')

POOL_HASHABLE = [0, 1, 2, 3, 'a', 'b', 'long string with spaces', 1.5, -2.25, None, {'$t': [1, 2]},
                 {'$t': ['a', {'$t': [1, None]}]}, {'$b': '00ff'}, 10 ** 20]
POOL_ANY = POOL_HASHABLE + [[1, 2], [1, [2, 'x']], {'$d': [['k', 1], ['j', [2]]]},
                            {'$d': [['default', 0], [1, 'one'], [{'$t': [0, 1]}, 'edge']]}, {'$d': [[2, 'b'], ['a', 1]]}]
NOISE_IMPORTS = ['decimal', 'fractions', 'email.parser', 'xml.dom.minidom', 'sqlite3', 'csv', 'uuid']


def generate(rng, prop, tier):
    for _ in range(100):
        label = rng.choice(B.PERSISTENT)
        kind, arg = rng.choice(M.KEYMAPS)
        fn = rng.weighted([(2, 'f1'), (4, 'f2'), (2, 'f3'), (3, 'f4'), (4, 'f5'), (4, 'f6'), (1, 'f7'), (1, 'f8'),
                           (4, 'f9'), (3, 'n9'), (3, 't2')])
        if rng.chance(0.08):
            # key OBJECTS pickled into the archive: raw keymap, many parameters (a flat key of more than 16 items)
            label, kind, arg, fn = rng.choice(['file-pkl', 'file-pkl', 'dir-pkl']), 'raw', None, 'n9'
        km = {'kind': kind, 'arg': arg, 'flat': rng.chance(0.5), 'typed': rng.chance(0.25),
              'sentinel': rng.chance(0.3)}
        if kind == 'raw':
            km['flat'] = True
        if kind == 'string' and rng.chance(0.3):
            km['enc'], km['strict'] = rng.choice([['latin_1', False], ['latin_1', None], ['utf_8', True], ['cp1252', False]])
        if kind == 'pickle' and arg in ('dill', 'pickle') and rng.chance(0.5):
            km['proto'] = rng.choice([0, 1, 2, 3])
        if not km['flat']:
            km['sentinel'] = False
        if fn in M.VARIADIC and km['flat']:
            km['sentinel'] = True
        if (km['typed'] or km['sentinel']) and kind == 'pickle' and arg == 'json':
            continue
        if kind == 'raw' and label in ('file-src', 'dir-src') and (km['typed'] or km['sentinel']):
            continue
        if not M.keymap_ok(km, label, False):
            continue
        if km.get('enc') and label in ('file-json', 'dir-json', 'file-src', 'dir-src'):
            continue        # an encoded key is bytes: not a JSON key, not an importable name
        break
    pool = list(POOL_HASHABLE if kind == 'raw' else POOL_ANY)
    if kind == 'pickle' and arg == 'json':
        pool = [p for p in pool if not (isinstance(p, dict) and ('$b' in p))]
        pool = [p for p in pool if not (isinstance(p, dict) and '$d' in p and any(not isinstance(k, str) for k, _ in p['$d']))]
    if kind == 'raw' and label in ('file-src',):
        pool = [p for p in pool]
    rng.shuffle(pool)
    pool = pool[:8]
    if km.get('enc'):
        pool = pool[:6] + ['price 5 \u20ac', '\u03b1\u03b2']        # text outside latin-1 / cp1252
    tol = deep = None
    if rng.chance(0.15) and not (kind == 'pickle' and arg == 'json') and kind != 'raw' and fn in ('f1', 'f2', 'f3', 'f6', 'f9'):
        # rounding configured: keys must not depend on what ELSE the process rounded before (signed zeros).
        # Not with the raw keymap: its keys compare with ==, so 0, 0.0 and -0.0 are ONE key there. The pool's own
        # floats go (1.5 and 2.5 both round to 2.0); deep rounding rebuilds dicts through **kwds, so dict
        # arguments with non-string keys are not its domain
        tol, deep = rng.choice([0, 1, 2]), rng.chance(0.7)
        pool = [q for q in pool if not isinstance(q, float) and not (isinstance(q, dict) and '$d' in q)][:5] + \
            [0.0, {'$f': '-0.0'}, 7.26, {'$t': [0.0, 1.5]}, {'$t': [{'$f': '-0.0'}, 1.5]}]
    calls = []
    for _ in range(rng.randint(3, 12)):
        c = M.logical_call(rng, fn, [dec(p) for p in pool], True)
        calls.append({'op': 'lcall', 'c': dict((k, enc(v)) for k, v in c.items())})
    sessions = []
    for i in range(rng.choice([2, 2, 3])):
        sessions.append({'hashseed': rng.below(2 ** 32), 'spell': rng.below(1 << 30),
                         'noise': {'imports': rng.sample(NOISE_IMPORTS, rng.randint(0, 3)),
                                   'junk_objects': rng.choice([0, 0, 50, 500]),
                                   'subdir': rng.chance(0.3),
                                   'sibling_first': rng.chance(0.3),
                                   'failed_call_first': rng.chance(0.3),
                                   # another rounding cached function saw these floats first in this session
                                   'rounded_first': ([rng.choice([0.0, {'$f': '-0.0'}, 2.5]) for _ in range(rng.randint(1, 2))]
                                                     if tol is not None and rng.chance(0.7) else []),
                                   'other_first': [rng.choice(POOL_HASHABLE[:10]) for _ in range(rng.randint(0, 3))]}})
    # ignore specifications: the names _keygen substitutes for ignored arguments must not make the key depend
    # on the session (iteration order of a set of names is hash-seed dependent)
    ignore = None
    if rng.chance(0.35) and not (kind == 'pickle' and arg == 'json') and not (kind == 'raw' and label in ('file-src', 'dir-src')):
        ignore = {'f2': [['y'], ['x', 'y']], 'f7': [['y'], ['x', 'y']], 'f6': [['x', 'y'], ['y', '*'], ['**', 'x', 'y']],
                  'f9': [['x', 'y'], ['y', 'z', 'x'], ['z', 'y'], [0, 1]], 'f3': [['*'], ['x', '*']],
                  'f5': [['**'], ['x', '**']], 'f4': [['k'], ['x', 'k']], 'f8': [['k', 'x']],
                  't2': [['t', 'T'], ['T', 't', 'x'], ['T']]}.get(fn)
        ignore = rng.choice(ignore) if ignore else None
    return {'engine': 'sessions', 'prop': prop, 'backend': B.config(label, 'k0'), 'keymap': km, 'fn': fn,
            'ignore': ignore, 'tol': tol, 'deep': deep,
            'module': rng.choice(['std', 'safe']), 'algo': rng.choice(['inf', 'lru']),
            'ops': calls, 'sessions': sessions}


def _logical(op):
    return dict((k, dec(v)) for k, v in op['c'].items())


def execute(case, prop, ctx):
    root = ctx['root']
    os.makedirs(os.path.join(root, 'sub'), exist_ok=True)
    outs = []
    probes, faults = {}, {}

    def bump(d, k, n=1):
        d[k] = d.get(k, 0) + n
    viol = None
    for si, sess in enumerate(case['sessions']):
        rng = PRNG(sess['spell'])
        calls = []
        for op in case['ops']:
            c = _logical(op)
            calls.append(M.spell(rng, case['fn'], c))
        noise = dict(sess['noise'])
        noise['cwd'] = os.path.join(root, 'sub') if noise.pop('subdir', False) else root
        job = {'root': root, 'backend': case['backend'], 'keymap': case['keymap'], 'fn': case['fn'],
               'module': case['module'], 'algo': case['algo'], 'calls': calls, 'noise': noise,
               'ignore': case.get('ignore'), 'tol': case.get('tol'), 'deep': case.get('deep'),
               'klepto_root': os.environ.get('VERIF_KLEPTO_ROOT')}
        env = dict(os.environ)
        env['PYTHONHASHSEED'] = str(sess['hashseed'])
        env.pop('PYTHONPATH', None)
        p = subprocess.run([sys.executable, SESSION_MAIN], input=json.dumps(job).encode(), env=env,
                           stdout=subprocess.PIPE, stderr=subprocess.PIPE, cwd=root, timeout=150)
        bump(faults, 'exec-session')
        bump(faults, 'hashseed-change')
        if noise.get('imports'):
            bump(faults, 'extra-imports')
        if noise['cwd'] != root:
            bump(faults, 'other-cwd')
        if p.returncode != 0:
            viol = {'class': 'session-crashed', 'step': 0,
                    'detail': 'session %d failed: %s' % (si, p.stderr.decode()[-600:])}
            break
        try:
            out = json.loads(p.stdout.decode().strip().splitlines()[-1])
        except Exception:
            return {'harness_error': 'session %d output unparsable: %r' % (si, p.stdout[-300:])}
        out['spelled'] = calls
        outs.append(out)
    if viol is None:
        first = outs[0]
        for si in range(1, len(outs)):
            o = outs[si]
            for j, (a, b) in enumerate(zip(first['calls'], o['calls'])):
                if a['key'] != b['key'] or a['ktype'] != b['ktype']:
                    s0, s1 = first['spelled'][j], o['spelled'][j]
                    if s0 == s1:
                        trig = 'same-spelling'
                    elif len(s0['a']) != len(s1['a']):
                        trig = 'positional-vs-keyword'
                    else:
                        trig = 'keyword-order'
                    viol = {'class': 'key-unstable', 'step': j, 'trigger': trig,
                            'detail': 'call %d: session 0 spelled %s -> key %s; session %d spelled %s -> key %s'
                                      % (j, json.dumps(first['spelled'][j]), a['key'][:120], si,
                                         json.dumps(o['spelled'][j]), b['key'][:120])}
                    break
                if a['res'] != b['res']:
                    viol = {'class': 'result-differs', 'step': j,
                            'detail': 'call %d returned %r in session 0 and %r in session %d' % (j, a['res'], b['res'], si)}
                    break
                if b['kind'] == 'miss':
                    viol = {'class': 'later-session-recomputed', 'step': j,
                            'detail': 'call %d (%s, key %s) was evaluated again in session %d although session 0 '
                                      'archived it' % (j, json.dumps(o['spelled'][j]), b['key'][:120], si)}
                    break
                if b['first'] and b['kind'] != 'load':
                    viol = {'class': 'first-use-not-load', 'step': j,
                            'detail': 'call %d first use in session %d was a %s' % (j, si, b['kind'])}
                    break
                bump(probes, 'served-in-later-session')
            if viol:
                break
            if o['info'][1] != 0:
                viol = {'class': 'later-session-recomputed', 'step': len(case['ops']) - 1,
                        'detail': 'session %d reports %d misses' % (si, o['info'][1])}
                break
        seeds = set(o['hash_probe'] for o in outs)
        if len(seeds) > 1:
            bump(probes, 'sessions-with-different-str-hashes')
    sh = hashlib.sha1(repr((case['backend']['label'], case['keymap'], case['fn'], len(case['ops']),
                            len(case['sessions']),
                            [c['kind'] for o in outs for c in o['calls']])).encode()).hexdigest()[:16]
    dg = hashlib.sha1(json.dumps([[c['key'], c['kind'], c['res']] for o in outs for c in o['calls']]).encode()).hexdigest()
    return {'viol': viol, 'probes': probes, 'faults': faults,
            'steps': sum(len(o['calls']) for o in outs), 'shape': sh, 'nontrivial': len(outs) >= 2,
            'obs_digest': dg, 'sim_s': 0, 'real_events': 0}


def simplify(case):
    if len(case['sessions']) > 2:
        c = _copy.deepcopy(case)
        c['sessions'] = c['sessions'][:2]
        yield c
    for i, s in enumerate(case['sessions']):
        if s['noise']['imports'] or s['noise']['junk_objects'] or s['noise'].get('subdir') or s['noise']['other_first']:
            c = _copy.deepcopy(case)
            c['sessions'][i]['noise'] = {'imports': [], 'junk_objects': 0, 'subdir': False, 'other_first': [],
                                          'sibling_first': s['noise'].get('sibling_first', False),
                                          'failed_call_first': s['noise'].get('failed_call_first', False)}
            yield c
        if s['noise'].get('failed_call_first'):
            c = _copy.deepcopy(case)
            c['sessions'][i]['noise']['failed_call_first'] = False
            yield c
        if s['noise'].get('sibling_first'):
            c = _copy.deepcopy(case)
            c['sessions'][i]['noise']['sibling_first'] = False
            yield c
    if case['module'] != 'std':
        c = _copy.deepcopy(case)
        c['module'] = 'std'
        yield c
    if case.get('ignore'):
        c = _copy.deepcopy(case)
        c['ignore'] = None
        yield c
    if case['algo'] != 'inf':
        c = _copy.deepcopy(case)
        c['algo'] = 'inf'
        yield c
    for lab in ('file-pkl', 'dir-pkl'):
        if case['backend']['label'] != lab and M.keymap_ok(case['keymap'], lab, False):
            c = _copy.deepcopy(case)
            c['backend'] = B.config(lab, 'k0')
            yield c
            break


def signature(case, viol, prop):
    km = case['keymap']
    kind = km['kind'] + ('' if km['kind'] not in ('pickle', 'chain') else ':%s' % (km['arg'] or 'repr'))
    return '%s|%s|%s%s|%s%s' % (prop, viol['class'], kind, '' if km['flat'] else '-nonflat',
                                viol.get('trigger', '-'), '|ignore' if case.get('ignore') else '')


def evidence_info(prop):
    return {
        'rule': "each run = a chain of 2-3 exec'd interpreters on one persistent archive (every backend/encoding) with one "
                'keymap configuration (raw/string/pickle[repr,pickle,dill,json]/md5/sha1 x flat x typed x sentinel) and one '
                'signature family; 3-12 logical calls over process-independent arguments (ints, big ints, strings, floats, '
                'None, bytes, nested tuples/lists/dicts). Each session gets its own PYTHONHASHSEED, extra imports, junk '
                'objects, unrelated earlier cache traffic, cwd, and its own spelling of every call. Oracle: key of every '
                'call identical in all sessions, equal results, no evaluation and first use = load in later sessions. '
                'total_steps = calls executed; distinct = distinct (configuration, per-call outcome kinds)',
        'components': {
            'real': ['klepto decorators, keymaps, crypto (repr/pickle/dill/json/hashlib), all persistent archives, '
                     "real exec'd CPython interpreters with real hash randomisation"],
            'simulated': ['PYTHONHASHSEED of each session', 'process state noise', 'call spellings', 'session order'],
            'stub_or_absent': ['sqlalchemy / hdf5 backends (not installed)'],
        },
        'assumptions': ['arguments are values whose repr/pickle is process independent (no sets of strings, no id-based reprs)',
                        'hashmap(algorithm=None) is excluded, as the statement says'],
    }
