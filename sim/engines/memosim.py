"""memosim: sessions of decorated functions over one backend.

One world = a decorated function (any of the 12 decorators) over a cache
object (plain, cache+archive, or an archive used directly), driven by a
seeded history of calls (several spellings, raising calls, unhashable
arguments), management operations (load/dump/clear/toggle/swap), restarts
and dill round trips.  After every step the public surface is observed
(result/exception, info(), __cache__() contents, attached archive contents,
key(), the evaluation log) and the per-property oracles are applied.

Properties: C01 C02 C05 C06 C07 C15 (single world) and C16 C18 C20 (twin
worlds run in lock-step from the same seed, differing only in the clause's
X: the raising calls / the introspection probes / the dill round trip).
"""
import os
import sys
import json
import copy as _copy
import random as _random
import zlib
import shutil
import hashlib
import functools

from sim import backends as B
from sim.prng import PRNG
from sim.values import enc, dec, show, Unpicklable, F64, NAN, Plain, PLAIN
from sim.simfs import SimFS, SimClock

PROPS = ['C01', 'C02', 'C05', 'C06', 'C07', 'C15', 'C16', 'C18', 'C20']
ALGOS = ['no', 'inf', 'lfu', 'lru', 'mru', 'rr']


# --------------------------------------------------------------------------
# the wrapped functions: module level (dill pickles them by reference),
# deterministic, equality-respecting, results are plain strings (lossless
# in every backend)

class SimFault(Exception):
    pass


class SimAbort(BaseException):
    """what a wrapped function raises when it is interrupted: not an Exception subclass
    (KeyboardInterrupt, SystemExit, GeneratorExit, asyncio.CancelledError are of this kind)"""


class SimTimeout(TimeoutError):
    """an OSError subclass raised by the wrapped function (a network or file-system call inside it failed)"""


class SimKeyError(KeyError):
    """the wrapped function's own KeyError (the exception the wrappers use internally for a miss)"""


class SimTypeError(TypeError):
    """the wrapped function's own TypeError (the exception the wrappers use internally for unhashable keys)"""


_RAISES = {'os': SimTimeout, 'key': SimKeyError, 'type': SimTypeError}


class _Cur(object):
    world = None


def _enter(name, canon):
    w = _Cur.world
    w.evals.append((name, canon))
    if w.raise_next is not None:
        e = w.raise_next
        w.raise_next = None
        raise e


class _R(object):
    """repr that never raises (arguments may be objects whose repr does)"""
    def __init__(self, v):
        self.v = v

    def __repr__(self):
        try:
            if isinstance(self.v, memoryview):
                return 'memoryview(%r)' % (bytes(self.v),)      # the real repr contains an address
            if isinstance(self.v, Plain):
                return 'Plain#%d' % self.v.n
            return repr(self.v)
        except Exception:
            return '<no repr>'


_BIGRES = [False]
_UNENC = [False]
_PKLRES = [False]


def _res(text):
    """the result for a call: mostly the text itself (unique per bound arguments), but a fixed fraction of
    calls return None or another falsy value, which every backend stores losslessly and which a cache
    must serve like any other result (a stored None is not "missing")"""
    h = zlib.crc32(text.encode()) % 10
    if h == 0:
        return None
    if h == 1:
        return ''
    if h == 2:
        return 0
    if h == 6 and _PKLRES[0]:
        import pickle as _pk
        return _pk.dumps(('record', text), 2)      # the result is itself a complete pickle (a pre-serialised message)
    if h == 5:
        # a string that LOOKS like a number (a postal code, a zero-padded id, a version): still a string
        n = zlib.crc32(text.encode()) // 10 % 100000
        return ['0%d' % n, '%d.10' % n, '1e%d' % (n % 5), '%05d' % n][n % 4]
    if h == 4 and _UNENC[0]:
        return Unpicklable()       # a result no archive encoding accepts (dill, json and sqlite all refuse it)
    if h == 3:
        # larger than one write buffer; in "bigres" runs larger than one MiB (block-wise (de)compression)
        return text + '#' * (1200000 if _BIGRES[0] else 9000)
    return text


def r_f1(x):
    return _res('f1(%r)' % (_R(x),))


def r_f2(x, y=2):
    return _res('f2(%r,%r)' % (_R(x), _R(y)))


def r_f3(x, *a):
    return _res('f3(%r,%r)' % (_R(x), _R(a)))


def r_f4(x, *, k=1):
    return _res('f4(%r,%r)' % (_R(x), _R(k)))


def r_f5(x, **kw):
    return _res('f5(%r,%r)' % (_R(x), _R(sorted(kw.items()))))


def r_f6(x, y=2, *a, **kw):
    return _res('f6(%r,%r,%r,%r)' % (_R(x), _R(y), _R(a), _R(sorted(kw.items()))))


def r_f7(x, y=7.26):
    return _res('f7(%r,%r)' % (_R(x), _R(y)))


def r_f8(x, *, k=7.26):
    return _res('f8(%r,%r)' % (_R(x), _R(k)))


def f7(x, y=7.26):
    # a float default that is not a fixed point of rounding at tol 0 or 1
    _enter('f7', show((x, y)))
    return r_f7(x, y)


def f8(x, *, k=7.26):
    _enter('f8', show((x, k)))
    return r_f8(x, k=k)


def r_f9(x, y, z=3):
    return _res('f9(%r,%r,%r)' % (_R(x), _R(y), _R(z)))


def f9(x, y, z=3):
    # two required parameters (ignore specs naming several parameters without default)
    _enter('f9', show((x, y, z)))
    return r_f9(x, y, z)


class Cnt(int):
    """an int whose comparisons are visible: wrapping the builtin `max` (which Python cannot introspect)
    around two of these makes every evaluation of the builtin show up in the evaluation log"""
    def __gt__(self, o):
        _enter('b1', 'gt %d %d' % (int(self), int(o)))
        return int.__gt__(self, o)

    def __lt__(self, o):
        _enter('b1', 'lt %d %d' % (int(self), int(o)))
        return int.__lt__(self, o)

    def __reduce__(self):
        return (Cnt, (int(self),))


def r_m2(x, y=2):
    return _res('m2(%r,%r)' % (_R(x), _R(y)))


def r_c2(x, y=2):
    return _res('c2(%r,%r)' % (_R(x), _R(y)))


def r_p2(x, y=2):
    return _res('p2(%r,%r)' % (_R(x), _R(y)))


class _Obj(object):
    """other kinds of callable: a bound method and a callable instance"""
    def m2(self, x, y=2):
        """a documented method"""
        _enter('m2', show((x, y)))
        return r_m2(x, y)

    def __call__(self, x, y=2):
        """a documented __call__ (what help() shows for a callable object)"""
        _enter('c2', show((x, y)))
        return r_c2(x, y)


def _g3(z, x, y=2):
    _enter('p2', show((x, y)))
    return r_p2(x, y)


def _logged(fn):
    """an ordinary functools.wraps decorator: the outer signature (*args, **kwds) differs from the inner one"""
    @functools.wraps(fn)
    def wrapper(*args, **kwds):
        return fn(*args, **kwds)
    return wrapper


def r_w2(x, y=2):
    return _res('w2(%r,%r)' % (_R(x), _R(y)))


def _w2_inner(x, y=2):
    _enter('w2', show((x, y)))
    return r_w2(x, y)


w2 = _logged(_w2_inner)
w2.__name__ = w2.__qualname__ = 'w2'       # importable by name (dill pickles it by reference)
_OBJ = _Obj()
_M2 = _OBJ.m2
_P2 = functools.partial(_g3, 10)


def r_r1(n):
    a, b = 0, 1
    for _ in range(n):
        a, b = b, a + b
    return a


def r1(n):
    """re-entrant: the function calls its own memoized wrapper, so the cache changes while a call is in flight"""
    _enter('r1', show((n,)))
    if n < 2:
        return n
    g = _Cur.world.f
    return g(n - 1) + g(n - 2)


def r_d2(x, default=2):
    return _res('d2(%r,%r)' % (_R(x), _R(default)))


def d2(x, default=2):
    # a parameter whose NAME an implementation might want for itself
    _enter('d2', show((x, default)))
    return r_d2(x, default)


def r_p4(x, *, k=5):
    return _res('p4(%r,%r)' % (_R(x), _R(k)))


def _g4(x, *, k=1):
    _enter('p4', show((x, k)))
    return r_p4(x, k=k)


# a partial that overrides a keyword-only DEFAULT: calls that omit k run with k=5, not with the function's k=1
_P4 = functools.partial(_g4, k=5)


def r_n9(a, b=1, c='c', d='d', e='e', f='f', g='g', h='h', i='i'):
    return _res('n9(%r,%r,%r,%r)' % (_R(a), _R(b), _R(c), _R((d, e, f, g, h, i))))


def n9(a, b=1, c='c', d='d', e='e', f='f', g='g', h='h', i='i'):
    # nine named parameters: a flat key of more than sixteen items
    _enter('n9', show((a, b, c, d, e, f, g, h, i)))
    return r_n9(a, b, c, d, e, f, g, h, i)


def r_z0(*a, **kw):
    return _res('z0(%r,%r)' % (_R(a), _R(sorted(kw.items()))))


def z0(*a, **kw):
    # no named parameter at all: positional and keyword parts of the key are told apart by the sentinel only
    _enter('z0', show((a, sorted(kw.items()))))
    return r_z0(*a, **kw)


def r_t2(x, t, T):
    return _res('t2(%r,%r,%r)' % (_R(x), _R(t), _R(T)))


def t2(x, t, T):
    # two REQUIRED parameters whose names differ by case only (their order in a key comes from the call)
    _enter('t2', show((x, t, T)))
    return r_t2(x, t, T)


def g1(x):
    # a generator FUNCTION: calling it runs nothing; the harness drains the result right after the call, so a
    # fresh generator logs one evaluation and a cached (already drained) one logs none
    _enter('g1', show((x,)))
    yield x


def r_k1(*xs, scale):
    return _res('k1(%r,%r)' % (_R(xs), _R(scale)))


def k1(*xs, scale):
    # variadic positionals plus a REQUIRED keyword-only parameter
    _enter('k1', show((xs, scale)))
    return r_k1(*xs, scale=scale)


_GS = {'n': 0}     # module-level state read by the v1 functions (C20: must stay shared after a dill round trip)


def _make_v1():
    def v1(x, y=2):
        _enter('v1', show((x, y)))
        return 'v1(%r,%r)#%d' % (_R(x), _R(y), _GS['n'])
    return v1            # a nested function: dill pickles it by value


def r_b1(*a):
    return max(int(x) if isinstance(x, int) else x for x in a) if len(a) > 1 else max(*a)


def f1(x):
    _enter('f1', show((x,)))
    return r_f1(x)


def f2(x, y=2):
    _enter('f2', show((x, y)))
    return r_f2(x, y)


def f3(x, *a):
    _enter('f3', show((x, a)))
    return r_f3(x, *a)


def f4(x, *, k=1):
    _enter('f4', show((x, k)))
    return r_f4(x, k=k)


def f5(x, **kw):
    _enter('f5', show((x, sorted(kw.items()))))
    return r_f5(x, **kw)


def f6(x, y=2, *a, **kw):
    _enter('f6', show((x, y, a, sorted(kw.items()))))
    return r_f6(x, y, *a, **kw)


FUNCS = {'f1': (f1, r_f1), 'f2': (f2, r_f2), 'f3': (f3, r_f3),
         'f4': (f4, r_f4), 'f5': (f5, r_f5), 'f6': (f6, r_f6), 'f7': (f7, r_f7), 'f8': (f8, r_f8), 'f9': (f9, r_f9),
         'm2': (_M2, r_m2), 'c2': (_OBJ, r_c2), 'p2': (_P2, r_p2), 'w2': (w2, r_w2),
         'b1': (max, r_b1), 'r1': (r1, r_r1), 'd2': (d2, r_d2), 'k1': (k1, r_k1), 'v1': (None, None),
         'p4': (_P4, r_p4), 'n9': (n9, r_n9), 'z0': (z0, r_z0), 't2': (t2, r_t2), 'g1': (g1, None)}          # a builtin without introspectable signature, always called with two Cnt
# signature twins: f7 is spelled like f2, f8 like f4 (they differ in the default value only)
SHAPE = {'g1': 'f1', 'p4': 'f4', 'f7': 'f2', 'f8': 'f4', 'm2': 'f2', 'c2': 'f2', 'p2': 'f2', 'w2': 'f2', 'd2': 'f2', 'v1': 'f2'}
DFLT = {'p4': 5, 'f2': 2, 'f6': 2, 'f4': 1, 'f7': 7.26, 'f8': 7.26, 'm2': 2, 'c2': 2, 'p2': 2, 'w2': 2, 'd2': 2, 'v1': 2}
KWNAME = {'d2': {'y': 'default'}}      # the second parameter of d2 is called `default`
DEFAULTS = {'f2': ('y', 2), 'f6': ('y', 2), 'f4': ('k', 1), 'f7': ('y', 7.26), 'f8': ('k', 7.26)}
VARIADIC = ('f3', 'f6', 'b1', 'w2', 'k1', 'z0')


def sibling_of(fn):
    """another function object made from the same code (as a factory or a lambda in a loop would) but
    with different default values: unrelated process state as far as `fn`'s keys are concerned"""
    import types
    g = types.FunctionType(fn.__code__, fn.__globals__, fn.__name__,
                           tuple(2 if d != 2 else 1 for d in (fn.__defaults__ or ())) or None, fn.__closure__)
    if fn.__kwdefaults__:
        g.__kwdefaults__ = dict((k, 2 if v != 2 else 1) for k, v in fn.__kwdefaults__.items())
    return g


# --------------------------------------------------------------------------
# configuration space

KEYMAPS = [
    ('raw', None), ('string', None), ('pickle', None), ('pickle', 'pickle'),
    ('pickle', 'dill'), ('pickle', 'json'), ('hash', 'md5'), ('hash', 'sha1'), ('hash', 'SHA256'),
    ('chain', 'dill+md5'), ('chain', 'string+sha1'), ('chain', 'md5+string'),       # chained keymaps (a + b)
]


def keymap_ok(km, label, direct):
    """can the backend hold the keys this keymap produces?"""
    kind, arg = km['kind'], km['arg']
    if label is None or label in ('dict', 'null'):
        return True
    strkeys = kind in ('string', 'hash', 'chain') or (kind == 'pickle' and arg in (None, 'json'))
    byteskeys = kind == 'pickle' and arg in ('pickle', 'dill')
    if label == 'dir-src':
        return kind == 'hash' or (kind == 'chain' and arg != 'md5+string')
    if label in ('file-json', 'dir-json'):
        return strkeys
    if label.startswith('sql'):
        return strkeys or byteskeys
    return True      # pickled file/dir archives and file-src take any key


def make_keymap(km):
    from klepto.keymaps import keymap, stringmap, picklemap, hashmap, SENTINEL
    kw = {'typed': km['typed'], 'flat': km['flat']}
    if km['sentinel']:
        kw['sentinel'] = SENTINEL
    kind, arg = km['kind'], km['arg']
    if kind == 'raw':
        return keymap(**kw)
    if kind == 'string':
        if km.get('enc'):
            kw.update(encoding=km['enc'], strict=km.get('strict', True))     # a (possibly lossy) codec for the key text
        return stringmap(**kw)
    if kind == 'pickle':
        if arg is not None:
            kw['serializer'] = arg
        if km.get('proto') is not None:
            kw['protocol'] = km['proto']       # an option that changes the key bytes
        return picklemap(**kw)
    if kind == 'chain':
        parts = {'dill': lambda: picklemap(serializer='dill', **kw), 'string': lambda: stringmap(**kw),
                 'md5': lambda: hashmap(algorithm='md5', **kw), 'sha1': lambda: hashmap(algorithm='sha1', **kw)}
        inner, outer = arg.split('+')
        return parts[inner]() + parts[outer]()
    return hashmap(algorithm=arg, **kw)


def gen_config(rng, prop, tier):
    module = rng.choice(['std', 'safe'])
    algo = rng.weighted([(1, 'no'), (2, 'inf'), (3, 'lfu'), (4, 'lru'), (3, 'mru'), (3, 'rr')])
    if prop == 'C06':
        algo = rng.choice(['lfu', 'lru', 'mru', 'rr'])
    maxsize = rng.weighted([(4, 1), (5, 2), (4, 3), (2, 4), (2, 5), (1, 8), (1, 12), (1, 25)])
    maxsize_pos = rng.chance(0.3)
    if prop in ('C05', 'C01', 'C15') and algo in ('lfu', 'lru', 'mru', 'rr') and rng.chance(0.12):
        maxsize = rng.choice([0, None])
        if prop != 'C05':
            maxsize_pos = False       # the positional spelling of 0/None is C05's business
    wide = prop in ('C01', 'C02', 'C05', 'C06', 'C07', 'C15') and algo in ('lfu', 'lru', 'mru', 'rr') and \
        maxsize not in (0, None) and rng.chance(0.05)
    if wide:
        maxsize = rng.choice([30, 40])      # LFU evicts max(2, maxsize//10) entries: >2 only from 30 up
    purge = rng.chance(0.3) and prop != 'C06'
    purge_then_off = prop == 'C06' and rng.chance(0.1)
    attach_load = prop == 'C06' and algo == 'mru' and not purge_then_off and rng.chance(0.12)
    fn = rng.weighted([(3, 'f1'), (4, 'f2'), (2, 'f3'), (2, 'f4'), (2, 'f5'), (2, 'f6'), (1, 'f7'), (1, 'f8'), (1, 'f9'), (1, 'b1'),
                       (1, 'm2'), (1, 'c2'), (1, 'p2'), (1, 'w2'), (1, 'd2'), (1, 'k1'), (1, 'p4'), (1, 'n9'), (1, 'z0'), (1, 't2')])
    if prop == 'C20' and rng.chance(0.12):
        fn = 'v1'
    gen_fn = prop == 'C15' and rng.chance(0.03)
    if gen_fn:
        fn = 'g1' 
    dflt100 = prop in ('C05', 'C15') and algo in ('lfu', 'lru', 'mru', 'rr') and not wide and rng.chance(0.02)
    if dflt100:
        # the decorator is built WITHOUT a maxsize argument: the documented bound is 100
        maxsize, maxsize_pos, fn = 'default', False, 'f1'
    huge = prop == 'C06' and algo in ('lru', 'mru') and not attach_load and rng.chance(0.012)
    if purge_then_off:
        purge = True
    if attach_load:
        maxsize, maxsize_pos, fn, purge = rng.choice([3, 4, 5, 6]), False, rng.choice(['f1', 'f2']), rng.chance(0.3)
    if huge:
        # a cache of a thousand entries and more than ten thousand recorded uses between two overflows
        maxsize, maxsize_pos, purge, fn, wide = rng.choice([1000, 1200]), False, False, 'f1', False
    if prop in ('C01', 'C05', 'C15') and not wide and not dflt100 and not gen_fn and rng.chance(0.06):
        fn = 'r1'        # a memoized recursive function (re-entrant calls)
    if wide:
        fn = rng.choice(['f2', 'f6', 'f9', 'f2'])       # enough distinct bound-argument combinations
    # backend
    labels = [None, None, 'dict', 'dict', 'null', 'file-pkl', 'file-json', 'file-src',
              'dir-pkl', 'dir-json', 'dir-fast', 'dir-z', 'dir-mmap', 'dir-src',
              'sql-file', 'sql-mem']
    if prop == 'C20':
        labels = [None, None, 'dict', 'dict', 'null', 'file-pkl', 'file-json', 'dir-pkl',
                  'dir-json', 'dir-fast']
    if prop in ('C07', 'C02'):
        labels = [l for l in labels if l not in (None, 'null')] + ['dict']
    label = rng.choice(labels)
    if attach_load:
        label = rng.choice(['dict', 'file-pkl', 'dir-pkl'])
    if gen_fn:
        label = None          # generator objects live in memory only
    if purge_then_off and not huge:
        label = rng.choice(['dict', 'dict', 'file-pkl', 'dir-pkl', 'sql-mem'])
    if huge:
        label = None          # in memory only: a thousand entries are read back after every step
    if fn == 'b1' and label in ('file-src', 'dir-src'):
        fn = 'f3'        # Cnt results have no importable source form: not lossless in source-text archives
    direct = label is not None and label != 'null' and rng.chance(0.15) and prop not in ('C07',)
    for _ in range(50):
        kind, arg = rng.choice(KEYMAPS)
        km = {'kind': kind, 'arg': arg, 'flat': rng.chance(0.6), 'typed': rng.chance(0.25),
              'sentinel': rng.chance(0.3)}
        if kind == 'pickle' and arg in ('dill', 'pickle') and rng.chance(0.4):
            km['proto'] = rng.choice([0, 1, 2, 3])      # an extra encoder option (changes the key bytes)
        if kind == 'raw':
            km['flat'] = True     # the non-flat raw key (args, kwds-dict) is never hashable
        if not km['flat']:
            km['sentinel'] = False
        if fn in VARIADIC and km['flat'] and not km['sentinel']:
            km['sentinel'] = True       # flat keys need a sentinel to stay information preserving
        if km['typed'] and kind == 'pickle' and arg == 'json':
            continue                     # json cannot encode the type objects
        if km['sentinel'] and kind == 'pickle' and arg == 'json':
            continue
        if km['sentinel'] and kind == 'raw' and label in ('file-src', 'dir-src'):
            # the raw key then contains the SENTINEL object itself, whose repr
            # is not an expression (covered by C03's known finding on source archives)
            continue
        if km['typed'] and kind == 'raw' and label in ('file-src', 'dir-src'):
            continue      # type objects in the key have no evaluable repr (C03 known finding on source archives)
        if not keymap_ok(km, label, direct):
            continue
        break
    else:
        km = {'kind': 'hash', 'arg': 'md5', 'flat': True, 'typed': False, 'sentinel': fn in VARIADIC}
    if prop == 'C06' and algo == 'mru' and not huge and not attach_load and not wide and rng.chance(0.25):
        # falsy cache keys: a callable whose arguments reach the raw flat keymap unnamed, called with a single
        # 0 / '' - the key IS that value
        km0 = {'kind': 'raw', 'arg': None, 'flat': True, 'typed': False, 'sentinel': True}
        if keymap_ok(km0, label, direct) and label not in ('file-src', 'dir-src'):
            km, fn = km0, rng.choice(['w2', 'z0'])
    backend = B.with_link(rng, label, B.config(label, B.odd_name(rng, label, 'm0'))) if label else None
    if label and (label.startswith('dir') or label == 'sql-file') and prop in ('C01', 'C02', 'C07') and rng.chance(0.12):
        # the archive is named relative to the working directory it is opened in, and the process changes
        # directory while the decorated function lives on (directory and sqlite archives are bound when opened)
        backend['rel'] = True
    vanish = prop == 'C05' and label is not None and label.split('-')[0] in ('file', 'dir') and not direct \
        and not (backend.get('link') or backend.get('rel')) and rng.chance(0.3 if purge else 0.1)
    if vanish:
        # the archive lives in a directory of its own that a later fault removes (unmounted volume, tmp cleaner)
        backend['name'] = 'vol/' + B.config(label, 'm0')['name']
    unenc = prop == 'C07' and not direct and not wide and rng.chance(0.1) and algo != 'no' and maxsize != 0 and \
        label in ('file-pkl', 'file-json', 'dir-pkl', 'dir-json', 'dir-z', 'dir-fast', 'sql-file')
    cfg = {'module': module, 'algo': algo, 'maxsize': maxsize, 'maxsize_pos': maxsize_pos, 'unenc': unenc,
           'purge': purge, 'keymap': km, 'fn': fn,
           'backend': backend, 'direct': direct,
           'ignore': None, 'tol': None, 'deep': False, 'wide': wide, 'huge': huge,
           'purge_then_off': bool(purge_then_off and not huge), 'vanish': bool(vanish), 'attach_load': bool(attach_load),
           # the decorator OBJECT travels before it is applied (kept in a configuration that is deep-copied,
           # pickled to the worker that decorates): the copy must carry every setting
           # module-level style: small = lru_cache(maxsize=3); large = lru_cache(maxsize=40); ... @small def f
           'other_deco_first': rng.chance(0.08),
           # the same decorator object also decorates ANOTHER function (other signature), which is never called
           'codeco_other': prop in ('C18', 'C01', 'C15') and rng.chance(0.08),
           # the global random stream is seeded once per run instead of before every step (C16: a raising call
           # must not consume from it either)
           'seed_once': prop == 'C16' and algo == 'rr' and rng.chance(0.5),
           'deco_copy': (rng.choice(['deepcopy', 'dill', 'copy']) if prop in ('C05', 'C06', 'C07', 'C15', 'C20', 'C01')
                         and (label is None or not label.startswith('sql')) and rng.chance(0.06) else None),
           'bigres': label in ('dir-z', 'dir-fast', 'dir-mmap', 'dir-pkl', 'file-pkl', 'sql-file') and not wide
           and rng.chance(0.12)}
    if prop == 'C16' and module == 'safe' and rng.chance(0.25):
        # un-encodable arguments combined with rounding / ignore: the fallback evaluation must still receive
        # the arguments exactly as passed
        if fn in ('f2', 'f6', 'f7', 'f9') and rng.chance(0.4):
            cfg['ignore'] = rng.choice(['y', ['y'], ['x']])
        else:
            cfg['tol'] = rng.choice([0, 1])
            cfg['deep'] = rng.chance(0.5)
    if prop == 'C20' and rng.chance(0.2) and not (km['kind'] == 'pickle' and km['arg'] == 'json') \
       and fn not in ('b1', 'r1'):
        cfg['tol'] = rng.choice([0, 1])
        cfg['deep'] = rng.chance(0.6)
    if prop == 'C18' and rng.chance(0.35) and not (km['kind'] == 'pickle' and km['arg'] == 'json') \
       and not (label in ('file-src', 'dir-src') and km['kind'] == 'raw'):
        if fn in ('f2', 'f6', 'f7') and rng.chance(0.5):
            cfg['ignore'] = rng.choice(['y', 1, ['y'], ['x']])
        elif fn in ('m2', 'c2', 'p2') and rng.chance(0.5):
            cfg['ignore'] = rng.choice(['y', ['y'], ['x']])
        elif fn == 'f9' and rng.chance(0.6):
            cfg['ignore'] = rng.choice([['x', 'y'], 'y', ['y', 'z'], ['z', 'x'], [0, 1]])
        elif fn in ('f3',) and rng.chance(0.5):
            cfg['ignore'] = '*'
        elif fn in ('f5',) and rng.chance(0.5):
            cfg['ignore'] = '**'
        else:
            cfg['tol'] = rng.choice([0, 1, 2])
            cfg['deep'] = rng.chance(0.5)
    return cfg


# directory archives written through klepto's own (joblib-style) pickler: the reader detects the format of each
# entry from the file, so a directory may be re-opened with any of these option sets
FAST_FAMILY = ('dir-fast', 'dir-z', 'dir-mmap')

ARG_POOL = [0, 1, 2, 3, 4, 5, 6, 'a', 'b', 1.5, 2.25, None]
# rarer argument kinds, mixed into some runs: empty and longer strings, a negative and a big int, a tuple, bytes
ARG_EXTRA = ['', 'a longer string, with "quotes"', -1, 10 ** 20, {'$t': [1, 2]}, {'$b': '00ff'},
             # two arguments whose key strings exceed a file name's length and differ only at the very end
             'P' * 270 + '1', 'P' * 270 + '2', 'dir/with/slashes', 'BLOCK_SIZE', 'K_max']
KW_NAMES = ['p', 'q']


def logical_call(rng, fn, pool, tuples_ok):
    """one logical call as bound values; spelled separately"""
    if fn == 'r1':
        return {'x': rng.randint(0, 14)}
    if fn == 'k1':
        return {'a': [rng.choice(pool) for _ in range(rng.randint(0, 3))], 'k': rng.choice(pool[:4])}
    if fn == 'n9':
        c = {'x': rng.choice(pool)}
        if rng.chance(0.6):
            c['y'] = rng.choice(pool[:3] + [1])
        if rng.chance(0.4):
            c['n9'] = [[n, rng.choice(['c', 'd', 'zz', 7])] for n in rng.sample(list('cdefghi'), rng.randint(1, 2))]
        return c
    if fn == 'z0':
        # either positional values or keyword values; some positional calls SPELL a keyword call's names and values
        if rng.chance(0.5):
            names = rng.sample(KW_NAMES, rng.randint(1, 2))
            return {'kw': [[n, rng.choice(pool[:3])] for n in names]}
        if rng.chance(0.5):
            n = rng.choice(KW_NAMES)
            return {'a': [n, rng.choice(pool[:3])]}
        return {'a': [rng.choice(pool) for _ in range(rng.randint(1, 3))]}
    if fn == 't2':
        return {'x': rng.choice(pool), 't': rng.choice(pool[:3]), 'T': rng.choice(pool[:3])}
    if fn == 'p4':
        c = {'x': rng.choice(pool)}
        if rng.chance(0.6):
            c['k'] = rng.choice(pool[:2] + [5, 1, 1])     # 1 is the underlying function's own default
        return c
    if fn == 'b1':
        ints = [p for p in pool if isinstance(p, int) and not isinstance(p, bool) and abs(p) < 2 ** 31] or [0, 1, 2]
        return {'x': rng.choice(ints), 'a': [rng.choice(ints)]}
    x = rng.choice(pool)
    c = {'x': x}
    dflt = DFLT.get(fn)
    fn = SHAPE.get(fn, fn)
    if fn in ('f2', 'f6') and rng.chance(0.6):
        c['y'] = rng.choice(pool[:4] + [dflt])
    if fn in ('f3', 'f6') and rng.chance(0.4):
        if fn == 'f6' and 'y' not in c:
            c['y'] = 2
        c['a'] = [rng.choice(pool) for _ in range(rng.randint(1, 2))]
    if fn == 'f4' and rng.chance(0.5):
        c['k'] = rng.choice(pool[:3] + [dflt])
    if fn == 'f9':
        c['y'] = rng.choice(pool[:4])
        if rng.chance(0.5):
            c['z'] = rng.choice(pool[:3] + [3])
    if fn in ('f5', 'f6') and rng.chance(0.5):
        names = rng.sample(KW_NAMES, rng.randint(1, 2))
        c['kw'] = [[n, rng.choice(pool[:4])] for n in names]
    return c


def spell(rng, fn, c):
    """choose one of the spellings Python binds identically"""
    args, kw = [], []
    rename = KWNAME.get(fn, {})
    if fn == 'k1':
        return {'op': 'call', 'a': [enc(v) for v in c['a']], 'kw': [['scale', enc(c['k'])]]}
    if fn == 'z0':
        kws = list(c.get('kw', []))
        rng.shuffle(kws)
        return {'op': 'call', 'a': [enc(v) for v in c.get('a', [])], 'kw': [[n, enc(v)] for n, v in kws]}
    if fn == 't2':
        form = rng.below(3)
        args, kws = [c['x']], []
        if form == 0 and 't' in c:
            args.append(c['t'])
            if 'T' in c and rng.chance(0.5):
                args.append(c['T'])
            elif 'T' in c:
                kws.append(['T', c['T']])
        else:
            kws = [[n, c[n]] for n in ('t', 'T') if n in c]
            if form == 2:
                kws.reverse()
        return {'op': 'call', 'a': [enc(v) for v in args], 'kw': [[n, enc(v)] for n, v in kws]}
    if fn == 'n9':
        # bound values: a, b and the named ones; everything else keeps its default. Spelled positionally up to a
        # random parameter and by keyword (in any order) from there on
        names = list('abcdefghi')
        dflt = dict(zip(names, [None, 1, 'c', 'd', 'e', 'f', 'g', 'h', 'i']))
        given = {'a': c['x']}
        if 'y' in c:
            given['b'] = c['y']
        for n, v in c.get('n9', []):
            given[n] = v
        npos = rng.randint(0, 1 + max(names.index(n) for n in given))
        args = [given.get(n, dflt[n]) for n in names[:npos]]
        if npos == 0 or (npos == 1 and rng.chance(0.0)):
            pass
        kws = [[n, given[n]] for n in names[npos:] if n in given]
        rng.shuffle(kws)
        if 'a' not in names[:npos] and not any(n == 'a' for n, _ in kws):
            kws.append(['a', c['x']])
        return {'op': 'call', 'a': [enc(v) for v in args], 'kw': [[n, enc(v)] for n, v in kws]}
    fn = SHAPE.get(fn, fn)
    if fn == 'r1':
        return {'op': 'call', 'a': [c['x']], 'kw': []}
    if fn == 'f1':
        if rng.chance(0.25):
            kw.append(['x', c['x']])
        else:
            args.append(c['x'])
    elif fn == 'f2':
        form = rng.below(4)
        if form == 0:
            args.append(c['x'])
            if 'y' in c:
                args.append(c['y'])
        elif form == 1:
            args.append(c['x'])
            if 'y' in c:
                kw.append(['y', c['y']])
        elif form == 2:
            kw.append(['x', c['x']])
            if 'y' in c:
                kw.append(['y', c['y']])
        else:
            if 'y' in c:
                kw.append(['y', c['y']])
            kw.append(['x', c['x']])
    elif fn == 'f9':
        form = rng.below(4)
        if form == 0:
            args.extend([c['x'], c['y']])
        elif form == 1:
            args.append(c['x'])
            kw.append(['y', c['y']])
        elif form == 2:
            kw.extend([['x', c['x']], ['y', c['y']]])
        else:
            kw.extend([['y', c['y']], ['x', c['x']]])
        if 'z' in c:
            if form == 0 and rng.chance(0.5):
                args.append(c['z'])
            elif rng.chance(0.5):
                kw.append(['z', c['z']])
            else:
                kw.insert(0, ['z', c['z']])
    elif fn in ('f3', 'b1'):
        args.append(c['x'])
        args.extend(c.get('a', []))
    elif fn == 'f4':
        if rng.chance(0.3):
            kw.append(['x', c['x']])
        else:
            args.append(c['x'])
        if 'k' in c:
            kw.append(['k', c['k']])
    elif fn == 'f5':
        args.append(c['x'])
        kws = list(c.get('kw', []))
        rng.shuffle(kws)
        kw.extend(kws)
    elif fn == 'f6':
        args.append(c['x'])
        if 'a' in c:
            args.append(c['y'])
            args.extend(c['a'])
        elif 'y' in c:
            if rng.chance(0.5):
                args.append(c['y'])
            else:
                kw.append(['y', c['y']])
        kws = list(c.get('kw', []))
        rng.shuffle(kws)
        kw.extend(kws)
    return {'op': 'call', 'a': [enc(v) for v in args], 'kw': [[rename.get(n, n), enc(v)] for n, v in kw]}


BAD_ARGS = [[1, 2], {'$d': [['a', 1]]}, {'$s': [1, 2]}, {'$o': 'badrepr'}, {'$o': 'unpicklable'},
            [[1], {'$o': 'unpicklable'}], {'$deep': 3000}, {'$d': [[1, 2.5]]}, [{'$d': [[{'$t': [0, 1]}, 4.0]]}],
            {'$o': 'keyerr'}, [{'$o': 'keyerr'}], {'$o': 'memview'}, {'$d': [[1, 0.26], [2, 0.5]]}]

OPMIX = {
    'C01': [(60, 'call'), (2, 'restart_opts'), (5, 'mcall'), (4, 'chdir'), (2, 'sibling_call'), (5, 'peer_call'), (4, 'load'), (3, 'load_k'), (4, 'dump'), (2, 'dump_k'), (3, 'clear'),
            (1, 'clear_keep'), (3, 'off'), (3, 'on'), (2, 'swap'), (4, 'restart'), (3, 'restart_dump'),
            (3, 'advance')],
    'C02': [(60, 'call'), (2, 'invalidate'), (1, 'checkpoint'), (3, 'restart_opts'), (2, 'sync_clear'), (2, 'ext_clear'), (4, 'chdir'), (2, 'sibling_call'), (6, 'peer_call'), (3, 'load'), (2, 'load_k'), (5, 'dump'), (2, 'dump_k'), (2, 'clear'),
            (2, 'off'), (2, 'on'), (3, 'restart'), (6, 'restart_dump'), (2, 'advance')],
    'C05': [(55, 'call'), (10, 'load'), (3, 'load_k'), (4, 'dump'), (3, 'clear'), (3, 'off'), (3, 'on'),
            (2, 'swap'), (3, 'restart'), (3, 'restart_dump'), (2, 'clone'), (3, 'bad')],
    'C06': [(100, 'call'), (6, 'rcall'), (4, 'bad')],
    'C07': [(70, 'call'), (2, 'invalidate'), (2, 'checkpoint'), (2, 'sync_clear'), (2, 'ext_clear'), (4, 'chdir'), (4, 'peer_call'), (3, 'load'), (3, 'load_k'), (4, 'dump'), (2, 'dump_k'), (2, 'clear'),
            (2, 'off'), (3, 'on'), (2, 'restart_dump'), (1, 'swap')],
    'C15': [(60, 'call'), (3, 'codeco_call'), (3, 'peer_call'), (4, 'load'), (2, 'load_k'), (4, 'dump'), (2, 'dump_k'), (4, 'clear'),
            (3, 'clear_keep'), (3, 'off'), (3, 'on'), (2, 'swap'), (3, 'restart'), (3, 'restart_dump'),
            (3, 'clone'), (5, 'rcall'), (3, 'bad')],
    'C16': [(55, 'call'), (14, 'rcall'), (8, 'bad'), (3, 'load'), (3, 'dump'), (2, 'clear'), (2, 'off'),
            (2, 'on'), (2, 'restart_dump')],
    'C18': [(50, 'call'), (4, 'bad'), (5, 'mcall'), (2, 'sibling_call'), (14, 'key'), (14, 'lookup'), (3, 'rcall'), (3, 'load'), (3, 'dump'),
            (2, 'clear'), (2, 'off'), (2, 'on'), (2, 'restart_dump')],
    'C20': [(60, 'call'), (3, 'csync'), (5, 'gset'), (3, 'load'), (3, 'dump'), (2, 'clear'), (1, 'clear_keep'), (2, 'off'), (2, 'on'),
            (3, 'rcall')],
}


def generate(rng, prop, tier):
    cfg = gen_config(rng, prop, tier)
    fn = cfg['fn']
    km = cfg['keymap']
    pool = list(ARG_POOL)
    if rng.chance(0.3):
        extra = [dec(e) for e in rng.sample(ARG_EXTRA, rng.randint(1, 3))]
        if rng.chance(0.3):
            extra = [dec(e) for e in ARG_EXTRA[6:8]] + extra[:1]
        if km['kind'] == 'pickle' and km['arg'] == 'json':
            extra = [e for e in extra if not isinstance(e, (bytes, tuple))]
        pool = pool + extra
    if prop == 'C01' and rng.chance(0.12) and not (km['kind'] == 'pickle' and km['arg'] == 'json') and \
       not (cfg['backend'] and cfg['backend']['label'] in ('file-src', 'dir-src', 'file-json', 'dir-json')) and \
       fn not in ('b1', 'r1', 'n9') and not (cfg['backend'] and B.is_persistent(cfg['backend'])):
        # (in memory only: keys that embed an address differ from process to process, and on disk their sorted
        # listing order - hence what a bulk load does - would differ with them: the run would not replay exactly)
        # two live objects of one class with the default repr: different arguments, whatever the keymap prints
        pool = [PLAIN[1], PLAIN[2]] + pool
        cfg['plain'] = True
    if prop == 'C02' and km['kind'] == 'raw' and cfg['backend'] is not None and rng.chance(0.5) and \
       cfg['backend']['label'] in ('dir-pkl', 'dir-fast', 'dir-z', 'dir-mmap'):
        # a key that is not equal to its own unpickled copy: float nan, the usual missing-value marker (the same
        # object on every call, as math.nan is). Directory archives find entries by name, not by comparing keys
        pool.append(NAN)
    if cfg.get('tol') is not None:
        # rounded floats must not collide with ints of the pool or with the defaults y=2, k=1, z=3
        # (5.04 -> 5.0 == 5 are equal keys for a dict but distinct names for a directory archive)
        pool = [p for p in pool if p not in (5, 6, 1.5, 2.25)] + [5.04, 5.06, 6.249]
        if rng.chance(0.5):
            # a float subclass (numpy.float64 is one), and floats nested in a tuple (deep rounding)
            pool.append(F64(5.04) if rng.chance(0.5) else F64(7.31))
            if not (km['kind'] == 'pickle' and km['arg'] == 'json'):
                pool.extend([(1.26, 2.0), (1.3, 2.0)])
    rng.shuffle(pool)
    hot = [logical_call(rng, fn, pool[:6], True) for _ in range(rng.randint(2, 9))]
    if cfg.get('wide'):
        # enough distinct calls to overflow a cache of 30-40 entries several times
        hot = [logical_call(rng, fn, pool, True) for _ in range(rng.randint(45, 80))]
    strict = prop in ('C02', 'C07') and cfg['backend'] is not None and not cfg['direct'] and \
        cfg['backend']['label'] not in ('null',) and rng.chance(0.5) and not cfg.get('unenc')
    mix = list(OPMIX[prop])
    if strict:
        mix = [(w, k) for (w, k) in mix if k in ('call', 'dump', 'dump_k', 'load', 'load_k',
                                                   'restart_dump', 'restart_opts', 'advance')]
    if cfg['backend'] is None:
        mix = [(w, k) for (w, k) in mix if k not in ('off', 'on', 'swap', 'load', 'load_k',
                                                      'dump', 'dump_k')] + [(2, 'load'), (2, 'dump')]
    if cfg['module'] != 'safe' or fn == 'b1':
        mix = [(w, k) for (w, k) in mix if k != 'bad']
    if cfg['backend'] is None or cfg['direct'] or not B.is_persistent(cfg['backend']):
        mix = [(w, k) for (w, k) in mix if k != 'peer_call']
    if fn not in DEFAULTS:
        mix = [(w, k) for (w, k) in mix if k != 'sibling_call']
    if not (cfg['backend'] and cfg['backend'].get('rel')):
        mix = [(w, k) for (w, k) in mix if k != 'chdir']
    if fn != 'v1':
        mix = [(w, k) for (w, k) in mix if k != 'gset']
    if fn == 'g1':
        mix = [(w, k) for (w, k) in mix if k in ('call', 'clear', 'clear_keep')]     # (its body cannot raise AT the call)
    if fn in ('k1', 'v1', 'd2', 'z0', 't2'):
        mix = [(w, k) for (w, k) in mix if k not in ('bad', 'mcall', 'sibling_call')]
    if cfg.get('unenc'):
        mix = [(w, k) for (w, k) in mix if k not in ('restart', 'restart_dump', 'swap', 'peer_call', 'clear',
                                                      'sync_clear', 'ext_clear')]
    if cfg['backend'] is None or cfg['direct']:
        mix = [(w, k) for (w, k) in mix if k not in ('sync_clear', 'ext_clear', 'csync')]
    if cfg['direct'] or cfg.get('unenc') or cfg.get('huge') or fn in ('r1',):
        mix = [(w, k) for (w, k) in mix if k not in ('invalidate', 'checkpoint')]
    if cfg['backend'] is None or strict:
        mix = [(w, k) for (w, k) in mix if k != 'checkpoint']
    if strict:
        mix = [(w, k) for (w, k) in mix if k != 'invalidate']
    if cfg['backend'] is None or cfg['backend']['label'] not in FAST_FAMILY:
        mix = [(w, k) for (w, k) in mix if k != 'restart_opts']
    if fn in ('r1', 'b1') or cfg['keymap']['kind'] == 'raw' or cfg.get('ignore') is not None or \
       (cfg['keymap']['kind'] == 'pickle' and cfg['keymap']['arg'] == 'json' and False):
        mix = [(w, k) for (w, k) in mix if k != 'mcall']
    if fn == 'r1':
        mix = [(w, k) for (w, k) in mix if k not in ('bad', 'rcall', 'peer_call', 'clone', 'codeco_call')]
    n = rng.randint(5, 60)
    if rng.chance(0.08) or (prop == 'C06' and rng.chance(0.35)):
        n = rng.randint(60, 400 if tier == 'thorough' else 200)
    if cfg.get('wide'):
        n = rng.randint(150, 400 if tier == 'thorough' else 260)
    ops = []
    recent = []
    burst = 0
    for i in range(n):
        kind = rng.weighted(mix)
        if burst > 0:
            kind, burst = 'call', burst - 1
        elif prop == 'C06' and rng.chance(0.03):
            burst = rng.randint(10, 40)      # hit bursts fill the LRU queue
        if kind in ('call', 'rcall', 'key', 'lookup', 'peer_call', 'sibling_call', 'codeco_call'):
            if recent and rng.chance((0.55 if not cfg.get('wide') else 0.25) if burst == 0 else 0.95):
                c = rng.choice(recent[-3:])
            elif rng.chance(0.85):
                c = rng.choice(hot)
            else:
                c = logical_call(rng, fn, pool, True)
            op = spell(rng, fn, c)
            if kind == 'rcall':
                op['raises'] = True
                if rng.chance(0.2):
                    op['base'] = True        # an interrupt-like BaseException
                elif rng.chance(0.3):
                    op['exc'] = rng.choice(['os', 'key', 'type'])      # exception classes the wrappers handle themselves
                if rng.chance(0.2):
                    op['cause'] = True       # raised `from` another exception
            elif kind in ('key', 'lookup', 'peer_call', 'sibling_call', 'codeco_call'):
                op['op'] = kind
            else:
                recent.append(c)
            ops.append(op)
        elif kind == 'mcall':
            # the same list object as in the previous mcall, possibly changed in place since then
            op = {'op': 'call', 'a': [{'$mut': 0}] + ([1] if fn == 'f9' else []), 'kw': [], 'mut': True}
            if rng.chance(0.6):
                op['mutate'] = rng.choice(['append', 'set0', 'pop'])
            ops.append(op)
            if rng.chance(0.5):
                ops.append({'op': 'call', 'a': [{'$mut': 0}] + ([1] if fn == 'f9' else []), 'kw': [], 'mut': True})
        elif kind == 'bad':
            extra = [1] if fn == 'f9' else []
            if fn in ('f2', 'f6', 'f7', 'f3') and rng.chance(0.4):
                extra = [rng.choice([2.6, 0.75, 3])]      # a second argument that rounding or ignore would alter
            badarg = rng.choice(BAD_ARGS)
            if cfg.get('tol') is not None and cfg.get('deep') and rng.chance(0.5):
                badarg = {'$d': [[1, 0.26], [2, 0.5]]}      # deep rounding iterates it but cannot rebuild it
            bop = {'op': 'call', 'a': [badarg] + extra, 'kw': [], 'bad': True}
            if prop in ('C15', 'C16') and rng.chance(0.25):
                bop['raises'] = True          # the fallback evaluation itself fails
            ops.append(bop)
        elif kind in ('load_k', 'dump_k'):
            cs = [rng.choice(hot) for _ in range(rng.randint(1, 2))]
            ops.append({'op': kind, 'calls': [spell(rng, fn, c) for c in cs]})
        elif kind == 'advance':
            ops.append({'op': 'advance', 'dt': rng.weighted([(5, 0), (3, 1), (1, 3600), (1, -1)])})
        else:
            ops.append({'op': kind})
    if prop in ('C06', 'C05', 'C07', 'C01') and cfg['algo'] in ('lfu', 'lru', 'mru', 'rr') \
       and cfg['maxsize'] not in (0, None, 'default') and rng.chance(0.5 if cfg.get('wide') else 0.08):
        # "sweep" workload: a working set as large as the cache is used the same number of times (all use
        # counts tie, recency order = sweep order), then new arguments arrive and overflow it
        ms = cfg['maxsize']
        seen, base = set(), []
        for _ in range(3000):
            c = logical_call(rng, fn, pool, True)
            cc = dict(c)
            if DFLT.get(fn) is not None and cc.get('y', cc.get('k')) == DFLT[fn]:
                cc.pop('y', None)
                cc.pop('k', None)
            cj = json.dumps(dict((k, enc(v)) for k, v in cc.items()), sort_keys=True)
            if cj not in seen:
                seen.add(cj)
                base.append(c)
            if len(base) >= ms + rng.randint(3, 8):
                break
        warm = prop in ('C05', 'C07', 'C01') and cfg['backend'] is not None and rng.chance(0.5)
        # warm start: the working set is a little larger than the cache (so the archive ends up holding more than
        # maxsize entries), everything is dumped, memory is emptied and bulk-loaded again: the cache is then
        # full (or overfull) of entries the eviction bookkeeping has never seen when the newcomers arrive
        nwork = ms + (rng.randint(0, 2) if warm else 0)
        work, fresh = base[:nwork], base[nwork:]
        if len(work) == nwork and fresh:
            ops = []
            for r in range(rng.randint(1, 3)):
                order = list(work)
                if rng.chance(0.5):
                    rng.shuffle(order)
                ops.extend(spell(rng, fn, c) for c in order)
                if rng.chance(0.3) and order:
                    ops.append(spell(rng, fn, rng.choice(order)))     # one entry gets an extra use
            if warm:
                ops.extend([{'op': 'dump'}, {'op': 'clear'}, {'op': 'load'}])
            for c in fresh:
                ops.append(spell(rng, fn, c))
                if rng.chance(0.4):
                    ops.append(spell(rng, fn, rng.choice(work + fresh)))
    if any(k == 'sibling_call' for (_, k) in mix) and rng.chance(0.15):
        # the sibling is keyed before the function under test ever is
        op = spell(rng, fn, rng.choice(hot))
        op['op'] = 'sibling_call'
        ops.insert(0, op)
    if prop in ('C15', 'C06', 'C05', 'C20') and fn not in ('r1',) and rng.chance(0.06):
        # a long run of calls on recently used arguments, executed without reading the cache back in between
        # (hundreds of recorded uses since the last eviction: queue-length thresholds, periodic housekeeping)
        cs = [spell(rng, fn, c) for c in (recent[-3:] or hot[:2])]
        ops.insert(rng.randint(len(ops) // 2, len(ops)), {'op': 'burst', 'n': rng.choice([120, 300, 1100]), 'calls': cs})
    if cfg.get('huge'):
        ms = cfg['maxsize']
        ops = [{'op': 'call', 'a': [i], 'kw': []} for i in range(ms)]
        ops.append({'op': 'burst', 'n': 10 * ms + rng.randint(50, 600), 'calls': [{'op': 'call', 'a': [i], 'kw': []} for i in (0, 2, 5)]})
        ops.extend({'op': 'call', 'a': [ms + i], 'kw': []} for i in range(4))
    if prop == 'C20':
        pos = rng.randint(0, len(ops))
        clone = {'op': 'clone'}
        if cfg['backend'] is not None and B.is_persistent(cfg['backend']) and not cfg['direct'] and rng.chance(0.3):
            # the pickle travels: between dumps() and loads() somebody empties the shared store (through a handle
            # of its own). The restored function must still hold what the original held when it was pickled
            clone['between'] = 'ext_clear'
        ops.insert(pos, clone)
    if cfg['maxsize'] == 'default':
        # more distinct calls than the default bound of 100, then a few repeats
        n_d = 100 + rng.randint(3, 25)
        ops = ops[:rng.randint(0, 8)] + [{'op': 'call', 'a': [1000 + i], 'kw': []} for i in range(n_d)] + \
            [{'op': 'call', 'a': [1000 + rng.below(n_d)], 'kw': []} for _ in range(rng.randint(2, 8))]
    if cfg.get('attach_load'):
        # a store of precomputed results is attached to a running, partly filled cache, which is then warmed with
        # load(): the cache is full of entries the usage bookkeeping has partly never seen when the next miss overflows
        ms = cfg['maxsize']
        seen, base = set(), []
        for _ in range(400):
            c = logical_call(rng, fn, pool, True)
            cj = json.dumps(spell(PRNG(1), fn, c), sort_keys=True)
            if cj not in seen:
                seen.add(cj)
                base.append(c)
            if len(base) >= ms + 3:
                break
        if len(base) >= ms + 1:
            full, fresh = base[:ms], base[ms:]
            ops = [spell(rng, fn, c) for c in full[:ms - (1 if cfg['purge'] else 0)]] + [{'op': 'dump'}, {'op': 'clear'}, {'op': 'off'}]
            some = rng.sample(full, rng.randint(2, ms - 1))
            ops += [spell(rng, fn, c) for c in some]
            ops += [spell(rng, fn, c) for c in rng.sample(some, rng.randint(1, len(some) - 1))]      # hits, not on the last one
            ops += [{'op': 'on'}, {'op': 'load'}]
            ops += [spell(rng, fn, c) for c in fresh]
    if cfg.get('vanish'):
        ops.insert(rng.randint(min(3, len(ops)), len(ops)), {'op': 'vanish'})
        ops.extend(spell(rng, fn, logical_call(rng, fn, pool, True))
                   for _ in range(rng.randint(3, 10) + (cfg['maxsize'] if isinstance(cfg['maxsize'], int) and cfg['maxsize'] < 30 else 0)))
    if cfg.get('purge_then_off'):
        # the decorator purges while its archive is on; then the archive is switched off and the very same
        # cache must evict by its policy, counting uses from when the entries (re-)entered
        ops.insert(rng.randint(min(3, len(ops)), max(3, len(ops) // 2)), {'op': 'off'})
    return {'engine': 'memosim', 'prop': prop, 'cfg': cfg, 'ops': ops, 'strict': strict,
            'kseed': rng.below(1 << 30)}


# --------------------------------------------------------------------------
# execution

class Mismatch(Exception):
    def __init__(self, vclass, detail):
        Exception.__init__(self, detail)
        self.vclass = vclass
        self.detail = detail


_WRAP_CNT = [False]


def _decode_call(op):
    args, kw = [dec(v) if not (isinstance(v, dict) and '$mut' in v) else _Cur.world.mut for v in op['a']], \
        dict((n, dec(v)) for n, v in op['kw'])
    if _WRAP_CNT[0]:
        args = [Cnt(a) if isinstance(a, int) and not isinstance(a, bool) else a for a in args]
    return args, kw


def snapshot(d):
    out = {}
    for k, v in d.items():
        try:
            out[k] = v
        except TypeError:      # an archive used directly may hold unhashable keys
            out[('$unhashable', show(k))] = v
    return out


class World(object):
    def __init__(self, case, root, name):
        self.case = case
        self.cfg = case['cfg']
        self.root = os.path.join(root, name)
        os.makedirs(self.root)
        self.name = name
        self.evals = []
        self.raise_next = None
        self.fn, self.rfn = FUNCS[self.cfg['fn']]
        if self.cfg['fn'] == 'v1':
            self.fn, self.rfn = _make_v1(), None
            _GS['n'] = 0
        _BIGRES[0] = bool(self.cfg.get('bigres'))
        _UNENC[0] = bool(self.cfg.get('unenc'))
        _lab = self.cfg['backend']['label'] if self.cfg['backend'] else None
        _PKLRES[0] = _lab in (None, 'dict', 'null', 'file-pkl', 'dir-pkl', 'dir-fast', 'dir-z', 'dir-mmap', 'sql-file', 'sql-mem') \
            and self.cfg['fn'] not in ('b1', 'r1', 'v1', 'g1')
        _WRAP_CNT[0] = self.cfg['fn'] == 'b1' 
        self.generation = 0
        self.swapped = 0
        self.f = None
        self.g = None
        self.sib = None
        self.mut = [1, 2]        # ONE list object, passed again and again and mutated in place in between
        self.raised_steps = set()
        self.opts_label = None
        self.vanished = False  # C05: the archive's storage was removed by a fault
        self.orig = None       # C20: the function that was pickled
        self.orig_snap = None
        self.build(first=True)

    # -- construction -----------------------------------------------------
    def at_home(self, fn):
        """archives named relative to the cwd are always OPENED from this world's directory"""
        b = self.cfg['backend']
        if not (b and b.get('rel')):
            return fn()
        cwd = os.getcwd()
        os.chdir(self.root)
        try:
            return fn()
        finally:
            os.chdir(cwd)

    def make_cache(self):
        b = self.cfg['backend']
        if b is None:
            return None
        if self.opts_label:
            # the same directory, re-opened in a later "session" with other (compatible) storage options
            b = dict(b, opts=dict(B.CATALOG[self.opts_label]['opts']))
        return self.at_home(lambda: B.make(b, self.root, cached=not self.cfg['direct']))

    def build(self, first=False):
        import klepto
        import klepto.safe
        cfg = self.cfg
        mod = klepto.safe if cfg['module'] == 'safe' else klepto
        cls = getattr(mod, cfg['algo'] + '_cache')
        kw = {'keymap': make_keymap(cfg['keymap']), 'purge': cfg['purge']}
        cache = self.make_cache()
        if cache is not None:
            kw['cache'] = cache
        if cfg.get('ignore') is not None:
            ig = cfg['ignore']
            kw['ignore'] = tuple(ig) if isinstance(ig, list) else ig
        if cfg.get('tol') is not None:
            kw['tol'] = cfg['tol']
            kw['deep'] = cfg['deep']
        if cfg['algo'] in ('no', 'inf'):
            dec_ = cls(**kw)
        elif cfg['maxsize'] == 'default':
            dec_ = cls(**kw)
        elif cfg['maxsize_pos']:
            dec_ = cls(cfg['maxsize'], **kw)
        else:
            dec_ = cls(maxsize=cfg['maxsize'], **kw)
        if cfg.get('other_deco_first') and cfg['algo'] not in ('no', 'inf'):
            other_kw = dict(kw, purge=not cfg['purge'])
            other_kw.pop('cache', None)
            cls(maxsize=(self.eff_maxsize or 1) + 37, **other_kw)       # built, never applied
        if cfg.get('deco_copy'):
            import copy as _cp
            import dill as _dill
            try:
                dec_ = {'deepcopy': _cp.deepcopy, 'copy': _cp.copy,
                        'dill': lambda d: _dill.loads(_dill.dumps(d))}[cfg['deco_copy']](dec_)
            except Exception as e:
                raise Mismatch('decoration-raises', 'copying the decorator object (%s) raised %s: %s'
                               % (cfg['deco_copy'], type(e).__name__, str(e)[:200]))
        self.dec_ = dec_
        self.h = None
        try:
            self.f = dec_(self.fn)
        except Exception as e:
            raise Mismatch('decoration-raises', 'decorating with %s_cache(%s%r, ...) raised %s: %s'
                           % (cfg['algo'], '' if cfg['maxsize_pos'] else 'maxsize=', cfg['maxsize'],
                              type(e).__name__, str(e)[:200]))
        if cfg.get('codeco_other'):
            try:
                self.other = dec_(k1)
            except Exception:
                self.other = None
        self.generation += 1

    def peer(self):
        """a second decorated function (own decorator, own in-memory cache, own archive handle) on the
        same persistent location: 'a second decorator instance sharing the archive'"""
        if self.g is None:
            main, gen = self.f, self.generation
            self.build()
            self.g, self.f, self.generation = self.f, main, gen
        return self.g

    @property
    def eff_algo(self):
        cfg = self.cfg
        if cfg['algo'] in ('no', 'inf'):
            return cfg['algo']
        if cfg['maxsize'] == 0:
            return 'no'
        if cfg['maxsize'] is None:
            return 'inf'
        return cfg['algo']

    @property
    def eff_maxsize(self):
        a = self.eff_algo
        return 0 if a == 'no' else None if a == 'inf' else 100 if self.cfg['maxsize'] == 'default' else self.cfg['maxsize']

    # -- observation --------------------------------------------------------
    def observe(self):
        f = self.f
        c = f.__cache__()
        from klepto.archives import cache as _cache_t
        direct = not isinstance(c, _cache_t)
        try:
            mem = snapshot(c)
            a = c.archive
            if direct:
                arch, on = None, False
            else:
                on = bool(c.archived())
                arch = snapshot(a) if on else None
        except Exception as e:
            if not self.vanished:
                raise Mismatch('contents-unreadable', 'reading the cache/archive contents through items() raised %s: %s'
                               % (type(e).__name__, str(e)[:200]))
            # storage gone: only the in-memory side is observable
            mem, arch, on, direct = dict(c), {}, bool(c.archived()), False
        return {'info': tuple(f.info()), 'mem': mem, 'arch': arch, 'on': on,
                'direct': direct, 'nevals': len(self.evals)}


def obs_equal(a, b):
    return a['info'] == b['info'] and a['mem'] == b['mem'] and a['arch'] == b['arch'] \
        and a['on'] == b['on']


def obs_show(o):
    return 'info=%r mem=%s arch=%s on=%s' % (o['info'], show(o['mem']), show(o['arch']), o['on'])


class Oracle(object):
    """per-property bookkeeping fed with (before, op, outcome, after)"""
    def __init__(self, prop, world, case):
        self.prop = prop
        self.w = world
        self.case = case
        self.stamp = 0
        self.last_use = {}
        self.count = {}
        self.stats = [0, 0, 0]
        self.evalcount = {}
        self.computed = {}
        self.probes = {}
        self.call_only = True

    def bump(self, k, n=1):
        self.probes[k] = self.probes.get(k, 0) + n

    def reset_usage(self):
        self.last_use.clear()
        self.count.clear()

    # ---- a completed or raising call
    def on_call(self, op, key, keyerr, before, after, outcome, evals):
        prop, w = self.prop, self.w
        tag, val = outcome
        algo = w.eff_algo
        maxsize = w.eff_maxsize
        mem0, mem1 = before['mem'], after['mem']
        arch0, arch1 = before['arch'], after['arch']
        args, kw = _decode_call(op)
        bad = op.get('bad', False)
        raised_req = op.get('raises', False)
        nev = len(evals)
        hashable = keyerr is None
        try:
            resident0 = hashable and key in mem0
        except TypeError:
            resident0, hashable = False, False
        in_arch0 = bool(hashable and before['on'] and arch0 is not None and key in arch0)
        if hashable and not in_arch0 and before['on'] and arch0 and "'nan'" in show(key):
            in_arch0 = any(show(k) == show(key) for k in arch0)       # nan keys: equal by spelling only

        # ---- C01 / generic: results and exceptions
        unenc_about = prop == 'C07' and w.cfg.get('unenc') and tag == 'exc' and not raised_req and \
            (any(isinstance(v, Unpicklable) for v in mem1.values()) or any(isinstance(v, Unpicklable) for v in mem0.values()))
        if unenc_about:
            # a result that no encoding accepts is resident and a dump of it was refused: the caller gets the
            # encoder's error (fault: "value cannot be encoded"); nothing may be lost because of it
            self.bump('dump-refused-unencodable-value')
            for k, v in mem0.items():
                if k not in mem1 and not (arch1 is not None and k in arch1 and arch1[k] == v):
                    raise Mismatch('lost-on-eviction', 'call %s failed with %s while an un-encodable value was resident, and key %s '
                                   'left memory without being in the archive' % (show_op(op), type(val).__name__, show(k)))
            for k, v in (arch0 or {}).items():
                if arch1 is None or k not in arch1 or arch1[k] != v:
                    raise Mismatch('archive-entry-changed', 'call %s failed with %s and archived entry %s changed or vanished'
                                   % (show_op(op), type(val).__name__, show(k)))
            return
        if tag == 'exc':
            if raised_req and isinstance(val, (SimFault, SimAbort) + tuple(_RAISES.values())):
                pass
            else:
                if not (bad and prop != 'C16'):
                    cls = 'unexpected-exception:' + type(val).__name__
                    raise Mismatch(cls, 'call %s raised %s: %s' % (show_op(op), type(val).__name__, str(val)[:200]))
        else:
            if prop in ('C01', 'C16') and not (self.case['cfg'].get('tol') is not None or self.case['cfg'].get('ignore') is not None):
                exp = w.rfn(*args, **kw)
                if val != exp:
                    raise Mismatch('wrong-result', 'call %s returned %r, the function returns %r'
                                   % (show_op(op), val, exp))
        # ---- C02: evaluations
        if nev > 1 and w.cfg['fn'] != 'r1':
            if prop in ('C02', 'C16', 'C15'):
                raise Mismatch('double-evaluation', 'call %s evaluated the function %d times' % (show_op(op), nev))
        if prop == 'C02' and nev and hashable and not bad:
            if resident0 or in_arch0:
                raise Mismatch('needless-evaluation', 'call %s evaluated the function although key %s was %s'
                               % (show_op(op), show(key), 'resident' if resident0 else 'in the attached archive'))
            if tag == 'ok':
                self.evalcount[_hk(key)] = self.evalcount.get(_hk(key), 0) + 1
                if self.case.get('strict') and self.evalcount[_hk(key)] > 1:
                    raise Mismatch('recomputed-archived-key', 'key %s evaluated %d times although a lossless archive '
                                   'was attached throughout' % (show(key), self.evalcount[_hk(key)]))
        # ---- C05: capacity
        if prop == 'C05' and tag == 'ok':
            n0, n1 = len(mem0), len(mem1)
            if algo == 'no' and n1 != 0 and not (bad and n1 <= n0):
                # (a call that bypasses the cache because its arguments cannot be keyed leaves what a bulk load()
                # put there; it must not add to it)
                raise Mismatch('capacity', 'maxsize=0 but %d entries resident after call %s' % (n1, show_op(op)))
            if algo == 'inf':
                lost = [k for k in mem0 if k not in mem1]
                if lost:
                    raise Mismatch('capacity', 'maxsize=None but call %s removed %s' % (show_op(op), show(lost)))
            if maxsize is not None and n1 > max(maxsize, n0):
                raise Mismatch('capacity', 'call %s: %d resident before, %d after, maxsize %r'
                               % (show_op(op), n0, n1, maxsize))
            if algo not in ('no', 'inf') and w.cfg['purge'] and before['on'] and hashable and w.cfg['fn'] != 'r1' \
               and not resident0 and not bad and n0 + 1 > maxsize and n1 != 0:
                raise Mismatch('purge-not-emptied', 'purge=True, archived, call %s overflowed (%d resident, maxsize %d) '
                               'but %d entries stayed in memory' % (show_op(op), n0, maxsize, n1))
            if n0 > (maxsize or 0) and algo not in ('inf',):
                self.bump('call-on-overfull-cache')
        # ---- C06: eviction policy (call-only histories from an empty cache)
        if prop == 'C06' and hashable and not bad:
            if tag == 'exc':
                if mem1 != mem0:
                    raise Mismatch('eviction-policy', 'raising call %s changed the cache' % show_op(op))
            else:
                self.stamp += 1
                if resident0:
                    if mem1 != mem0:
                        raise Mismatch('eviction-policy', 'hit %s changed resident set from %s to %s'
                                       % (show_op(op), show(sorted(map(show, mem0))), show(sorted(map(show, mem1)))))
                    self.last_use[key] = self.stamp
                    self.count[key] = self.count.get(key, 0) + 1
                    self.bump('hit')
                else:
                    self.count[key] = 1
                    self.last_use[key] = self.stamp
                    cand = dict(mem0)
                    cand[key] = val
                    extra = [k for k in mem1 if k not in cand]
                    if extra:
                        raise Mismatch('eviction-policy', 'call %s: unexpected entries %s' % (show_op(op), show(extra)))
                    V = [k for k in cand if k not in mem1]
                    if len(cand) > maxsize and w.cfg['purge'] and before['on']:
                        # an overflow WITH purge is outside this property (C05: memory is emptied, C07: nothing
                        # lost); every entry left memory, so use counts and recency start afresh
                        self.bump('overflow-purged')
                        self.reset_usage()
                    elif len(cand) <= maxsize:
                        if V:
                            raise Mismatch('eviction-policy', 'call %s did not overflow (maxsize %d) yet %s left memory'
                                           % (show_op(op), maxsize, show(V)))
                    else:
                        self.bump('overflow')
                        self.check_victims(algo, key, mem0, V, op, maxsize)
                        for k in V:
                            self.last_use.pop(k, None)
                            self.count.pop(k, None)
        # ---- C07: nothing lost on eviction
        if prop == 'C07' and tag == 'ok' and before['on'] and after['on'] and arch1 is not None and hashable:
            cand = dict(mem0)
            if not bad:
                cand[key] = val
            for k, v in cand.items():
                if k not in mem1:
                    self.bump('left-memory')
                    if k not in arch1:
                        raise Mismatch('lost-on-eviction', 'call %s: key %s left memory but is not in the archive'
                                       % (show_op(op), show(k)))
                    if arch1[k] != v:
                        raise Mismatch('lost-on-eviction', 'call %s: key %s left memory with value %r, archive has %r'
                                       % (show_op(op), show(k), v, arch1[k]))
            for k, v in (arch0 or {}).items():
                if k not in arch1 or arch1[k] != v:
                    raise Mismatch('archive-entry-changed', 'call %s changed archived entry %s from %r to %r'
                                   % (show_op(op), show(k), v, arch1.get(k, '<absent>')))
        if prop == 'C07' and tag == 'ok' and nev and hashable and not bad:
            self.computed[_hk(key)] = (key, val)
        if prop == 'C07' and self.case.get('strict') and after['on'] and arch1 is not None:
            for hk, (k, v) in self.computed.items():
                if k not in mem1 and k not in arch1:
                    raise Mismatch('result-unretrievable', 'after call %s the computed result for key %s is in neither '
                                   'memory nor the archive' % (show_op(op), show(k)))
        # ---- C15: statistics
        if tag == 'ok':
            if nev:
                self.stats[1] += 1
                kind = 'miss'
            elif resident0 and algo != 'no':
                self.stats[0] += 1
                kind = 'hit'
            else:
                self.stats[2] += 1
                kind = 'load'
            self.bump('call-' + kind)
        if prop == 'C15' and w.cfg['fn'] == 'r1' and tag == 'ok':
            # re-entrant function: every nested call of the wrapper is a completed call too. Ground truth from the
            # evaluation log: misses = evaluations; completed calls = 1 + 2 per evaluation with n >= 2
            ev = len(evals)
            completed = 1 + 2 * sum(1 for (_, canon) in evals if canon not in (show((0,)), show((1,))))
            b, a = tuple(before['info']), tuple(after['info'])
            if a[1] - b[1] != ev or sum(a[:3]) - sum(b[:3]) != completed or a[3] != maxsize or a[4] != len(mem1):
                raise Mismatch('stats', 'recursive call %s: %d evaluations and %d completed calls (nested ones included), '
                               'but info() went from %r to %r' % (show_op(op), ev, completed, b, a))
            self.stats = list(a[:3])
        elif prop == 'C15':
            exp = (self.stats[0], self.stats[1], self.stats[2], maxsize, len(mem1))
            if tuple(after['info']) != exp:
                raise Mismatch('stats', 'after call %s info() is %r, the history gives %r (hit, miss, load, maxsize, size)'
                               % (show_op(op), tuple(after['info']), exp))
        # ---- C16: raising calls are no-ops; safe fallback
        if prop == 'C16':
            if raised_req and tag == 'exc':
                if nev != 1:
                    raise Mismatch('raise-evaluations', 'raising call %s evaluated %d times' % (show_op(op), nev))
                if not obs_equal(before, after):
                    raise Mismatch('raise-changed-state', 'raising call %s changed state: before %s after %s'
                                   % (show_op(op), obs_show(before), obs_show(after)))
            if bad and tag == 'ok':
                if nev != 1:
                    raise Mismatch('safe-evaluations', 'safe call %s evaluated %d times' % (show_op(op), nev))
                exp = w.rfn(*args, **kw)
                if val != exp:
                    raise Mismatch('safe-fallback-wrong-result', 'safe call %s with an un-encodable argument returned %r; '
                                   'evaluating the call as made gives %r' % (show_op(op), val, exp))
                self.bump('safe-fallback')
        # ---- C18: a call whose arguments key() cannot name must not have created an entry
        if prop == 'C18' and tag == 'ok' and bad and not hashable:
            new = [k for k in mem1 if k not in mem0]
            if new:
                raise Mismatch('key-incoherent', 'call %s stored its result under %s, but key() for the same arguments '
                               'raises %s: the entry can be neither named nor looked up'
                               % (show_op(op), show(new[0]), type(keyerr).__name__))
        # ---- C18: key()/lookup() coherence with what the call stored
        if prop == 'C18' and tag == 'ok' and hashable and not bad:
            new = [k for k in mem1 if k not in mem0]
            if arch1 is not None and arch0 is not None:
                # evictions may dump previously resident entries; anything else new is this call's
                new += [k for k in arch1 if k not in arch0 and k not in new and k not in mem0]
            for k in new:
                if not (k == key):
                    raise Mismatch('key-incoherent', 'call %s stored its result under %s but key() reports %s'
                                   % (show_op(op), show(k), show(key)))
            if key in mem1 and mem1[key] != val:
                raise Mismatch('key-incoherent', 'call %s returned %r but the entry under key() holds %r'
                               % (show_op(op), val, mem1[key]))

    def check_victims(self, algo, key, mem0, V, op, maxsize):
        lu, cnt = self.last_use, self.count
        if algo == 'lru':
            exp = min(mem0, key=lambda k: lu.get(k, -1))
            if V != [exp] and set(map(_hk, V)) != {_hk(exp)}:
                raise Mismatch('eviction-policy', 'LRU call %s evicted %s, least recently used is %s (last uses %s)'
                               % (show_op(op), show(V), show(exp), show(sorted((lu.get(k, -1), show(k)) for k in mem0))))
        elif algo == 'mru':
            exp = max(mem0, key=lambda k: lu.get(k, -1))
            if set(map(_hk, V)) != {_hk(exp)} or len(V) != 1:
                raise Mismatch('eviction-policy', 'MRU call %s evicted %s, most recently used before it is %s'
                               % (show_op(op), show(V), show(exp)))
        elif algo == 'rr':
            if len(V) != 1:
                raise Mismatch('eviction-policy', 'RR call %s evicted %d entries: %s' % (show_op(op), len(V), show(V)))
        elif algo == 'lfu':
            if not V:
                raise Mismatch('eviction-policy', 'LFU call %s overflowed but evicted nothing' % show_op(op))
            cand = list(mem0) + [key]
            kept = [k for k in cand if not any(_hk(k) == _hk(v) for v in V)]
            if kept:
                mv = max(cnt.get(k, 0) for k in V)
                mk = min(cnt.get(k, 0) for k in kept)
                if mv > mk:
                    raise Mismatch('eviction-policy', 'LFU call %s evicted %s (max count %d) but kept an entry used %d times: %s'
                                   % (show_op(op), show(V), mv, mk, show(sorted((cnt.get(k, 0), show(k)) for k in cand))))
            if len(V) > 1:
                self.bump('lfu-multi-victim')
            if len(V) > 2:
                self.bump('lfu-batch-over-2')


def _hk(k):
    return show(k)


def show_op(op):
    return json.dumps(op, sort_keys=True)[:240]


def run_world(case, prop, root, name, skip, fs, clock, probes, faults, log):
    """execute the case in one world; `skip(op)` tells which ops this twin omits.
    returns the list of (step index, observation) for comparison"""
    _Cur.world = None
    w = World(case, root, name)
    _Cur.world = w
    orc = Oracle(prop, w, case)
    krng = _random.Random(case['kseed'])
    seeds = [krng.getrandbits(32) for _ in range(len(case['ops']) + 1)]
    trace = []
    cfg = case['cfg']

    def bump(d, k, n=1):
        d[k] = d.get(k, 0) + n
    _random.seed(seeds[-1])
    before = w.observe()
    if prop == 'C15' and tuple(before['info'])[:3] != (0, 0, 0):
        raise Mismatch('stats', 'fresh function reports %r' % (before['info'],))
    for step, op in enumerate(case['ops']):
        w.step = step
        _Cur.world = w
        if not cfg.get('seed_once'):
            _random.seed(seeds[step])
        kind = op['op']
        if skip(step, op):
            continue
        f = w.f
        if kind == 'advance':
            clock.advance(op['dt'])
            continue
        if kind == 'call':
            if op.get('mutate'):
                m = w.mut
                if op['mutate'] == 'append':
                    m.append(len(m) + 10)
                elif op['mutate'] == 'set0':
                    m[0] = m[0] + 100 if m else None
                elif op['mutate'] == 'pop' and len(m) > 1:
                    m.pop()
                bump(faults, 'argument-mutated-in-place')
            args, kw = _decode_call(op)
            try:
                key, keyerr = f.key(*args, **kw), None
                hash(key)
            except Exception as e:
                key, keyerr = None, e
            if op.get('raises') and prop == 'twin16':
                op = dict(op)
                del op['raises']      # in the twin this call is served without evaluation, as in world A
            if op.get('raises'):
                if op.get('base'):
                    w.raise_next = SimAbort('interrupted at step %d' % step)
                    bump(faults, 'function-raises-BaseException')
                elif op.get('exc'):
                    w.raise_next = _RAISES[op['exc']]('injected at step %d' % step)
                    bump(faults, 'function-raises-%s' % _RAISES[op['exc']].__bases__[0].__name__)
                else:
                    w.raise_next = SimFault('injected at step %d' % step)
                fault = w.raise_next
                if op.get('cause'):
                    # the function raises `X from Y`: the explicit cause belongs to the exception
                    fault.__cause__ = KeyError('inner cause at step %d' % step)
                    fault.__suppress_context__ = True
                    bump(faults, 'function-raises-with-cause')
                cause0 = fault.__cause__
                bump(faults, 'function-raises')
            if op.get('bad'):
                if keyerr is None or cfg['direct']:
                    # hashable and encodable under this keymap: not a "bad" argument here;
                    # an archive used directly as the cache is outside C16's "archive attached"
                    w.raise_next = None
                    continue
                bump(faults, 'unhashable-or-unencodable-argument')
            n0 = len(w.evals)
            try:
                outcome = ('ok', f(*args, **kw))
                if cfg['fn'] == 'g1':
                    outcome = ('ok', list(outcome[1]))       # drain: runs the body of a fresh generator
            except BaseException as e:
                outcome = ('exc', e)
                if op.get('raises') and e is not fault and isinstance(e, (SimFault, SimAbort) + tuple(_RAISES.values())):
                    raise Mismatch('exception-identity', 'a different exception object reached the caller')
                if op.get('raises') and e is fault and (e.__cause__ is not cause0 or
                                                        e.__suppress_context__ != (cause0 is not None)):
                    raise Mismatch('exception-identity', 'the exception reached the caller with __cause__ %r '
                                   '(suppress_context %r); the function raised it with __cause__ %r'
                                   % (e.__cause__, e.__suppress_context__, cause0))
            pending = w.raise_next
            w.raise_next = None
            after = w.observe()
            if w.vanished and outcome[0] == 'exc' and not op.get('raises'):
                # after the storage fault a call may fail (the error is the archive's); capacity is still checked
                bump(probes, 'call-failed-after-storage-vanished')
                if prop == 'C05' and w.eff_maxsize is not None and len(after['mem']) > max(w.eff_maxsize, len(before['mem'])):
                    raise Mismatch('capacity', 'failing call %s after the storage vanished: %d resident before, %d after, '
                                   'maxsize %r' % (show_op(op), len(before['mem']), len(after['mem']), w.eff_maxsize))
                before = after
                continue
            if op.get('raises') and pending is None:
                w.raised_steps.add(step)
            if op.get('raises') and pending is not None:
                # the key was served without evaluating: nothing was raised (correct)
                bump(probes, 'raise-not-reached')
                op = dict(op)
                del op['raises']
            orc.on_call(op, key, keyerr, before, after, outcome, w.evals[n0:])
            trace.append((step, after, outcome[0], outcome[1] if outcome[0] == 'ok' else type(outcome[1]).__name__))
            before = after
            continue
        if kind == 'burst':
            cache = f.__cache__()
            todo = []
            for cop in op['calls']:
                a_, k_ = _decode_call(cop)
                try:
                    kk = f.key(*a_, **k_)
                    if kk in cache and w.eff_algo != 'no':
                        todo.append((a_, k_, kk))
                except Exception:
                    pass
            if todo:
                bump(faults, 'burst-of-hits')
                for i in range(op['n']):
                    a_, k_, kk = todo[i % len(todo)]
                    n0 = len(w.evals)
                    val = f(*a_, **k_)
                    if len(w.evals) != n0:
                        raise Mismatch('needless-evaluation', 'call %d of a run of calls on resident keys evaluated the '
                                       'function for key %s' % (i, show(kk)))
                    if cfg.get('tol') is None and cfg.get('ignore') is None and w.rfn is not None and val != w.rfn(*a_, **k_):
                        raise Mismatch('wrong-result', 'call %d of a run of calls on resident keys returned %r' % (i, val))
                    orc.stats[0] += 1
                    orc.stamp += 1
                    orc.last_use[kk] = orc.stamp
                    orc.count[kk] = orc.count.get(kk, 0) + 1
                bump(probes, 'burst-calls', op['n'])
            after = w.observe()
            if todo:
                if after['mem'] != before['mem']:
                    raise Mismatch('eviction-policy' if prop == 'C06' else 'capacity', 'a run of %d hits changed the resident set '
                                   'from %d to %d entries' % (op['n'], len(before['mem']), len(after['mem'])))
                if prop == 'C15':
                    exp = (orc.stats[0], orc.stats[1], orc.stats[2], w.eff_maxsize, len(after['mem']))
                    if tuple(after['info']) != exp:
                        raise Mismatch('stats', 'after a run of %d hits info() is %r, the history gives %r'
                                       % (op['n'], tuple(after['info']), exp))
            before = after
            trace.append((step, after, 'burst', None))
            continue
        if kind == 'codeco_call':
            # the same decorator OBJECT applied a second time (memo = lru_cache(...); f = memo(fn); h = memo(fn)):
            # the two functions share the cache by construction, but what h does is not a call of f, so
            # f's hit/miss/load counters must not move
            if w.h is None:
                w.h = w.dec_(w.fn)
            args, kw = _decode_call(op)
            try:
                w.h(*args, **kw)
            except Exception as e:
                raise Mismatch('unexpected-exception:' + type(e).__name__, 'function sharing the decorator: call %s '
                               'raised %s: %s' % (show_op(op), type(e).__name__, str(e)[:200]))
            bump(faults, 'call-through-shared-decorator')
            after = w.observe()
            if prop == 'C15' and tuple(after['info'])[:3] != tuple(before['info'])[:3]:
                raise Mismatch('stats', 'a call of ANOTHER function made with the same decorator object changed this '
                               "function's counters from %r to %r" % (tuple(before['info'])[:3], tuple(after['info'])[:3]))
            orc.reset_usage()
            before = after
            trace.append((step, before, 'codeco', None))
            continue
        if kind == 'sibling_call':
            # unrelated activity in the same process: a function sharing fn's code object but with other
            # defaults is memoized (own default cache) and called; must not influence fn's keys or results
            if w.sib is None:
                import klepto
                w.sib = klepto.inf_cache(keymap=make_keymap(cfg['keymap']))(sibling_of(w.fn))
            args, kw = _decode_call(op)
            try:
                w.sib(*args, **kw)
            except Exception as e:
                raise Mismatch('unexpected-exception:' + type(e).__name__, 'sibling function call %s raised %s: %s'
                               % (show_op(op), type(e).__name__, str(e)[:200]))
            bump(faults, 'sibling-function-call')
            continue
        if kind == 'peer_call':
            g = w.peer()
            args, kw = _decode_call(op)
            bump(faults, 'second-instance-call')
            try:
                gkey = g.key(*args, **kw)
                gc = g.__cache__()
                gmem = snapshot(gc)
                garch = snapshot(gc.archive) if gc.archived() else None
            except Exception as e:
                raise Mismatch('contents-unreadable', 'second instance: reading cache/archive raised %s: %s'
                               % (type(e).__name__, str(e)[:200]))
            n0 = len(w.evals)
            try:
                val = g(*args, **kw)
            except BaseException as e:
                raise Mismatch('unexpected-exception:' + type(e).__name__, 'second instance: call %s raised %s: %s'
                               % (show_op(op), type(e).__name__, str(e)[:200]))
            nev = len(w.evals) - n0
            if cfg.get('tol') is None and cfg.get('ignore') is None:
                exp = w.rfn(*args, **kw)
                if val != exp:
                    raise Mismatch('wrong-result', 'second instance: call %s returned %r, the function returns %r'
                                   % (show_op(op), val, exp))
            if nev > 1:
                raise Mismatch('double-evaluation', 'second instance: call %s evaluated the function %d times'
                               % (show_op(op), nev))
            if prop == 'C02' and nev and garch and "'nan'" in show(gkey) and any(show(k) == show(gkey) for k in garch):
                raise Mismatch('needless-evaluation', 'second instance on the same archive: call %s evaluated the '
                               'function although key %s was in the shared archive' % (show_op(op), show(gkey)))
            if prop == 'C02' and nev and (gkey in gmem or (garch is not None and gkey in garch)):
                raise Mismatch('needless-evaluation', 'second instance on the same archive: call %s evaluated the '
                               'function although key %s was %s' % (show_op(op), show(gkey),
                                                                     'resident' if gkey in gmem else 'in the shared archive'))
            if nev == 0 and garch is not None and gkey not in gmem and gkey in garch:
                bump(probes, 'second-instance-served-from-shared-archive')
            orc.evalcount.clear()        # the strict once-only count is per instance
            before = w.observe()         # the shared archive may have changed
            trace.append((step, before, 'peer', val))
            continue
        if kind in ('key', 'lookup'):
            args, kw = _decode_call(op)
            n0 = len(w.evals)
            bump(faults, 'probe-' + kind)
            try:
                key = f.key(*args, **kw)
            except Exception as e:
                raise Mismatch('probe-raises', 'key%s raised %s' % (show_op(op), type(e).__name__))
            if kind == 'lookup':
                try:
                    got = ('ok', f.lookup(*args, **kw))
                except KeyError:
                    got = ('KeyError', None)
                except Exception as e:
                    raise Mismatch('probe-raises', 'lookup%s raised %s: %s' % (show_op(op), type(e).__name__, e))
                mem = before['mem']
                if key in mem:
                    if got[0] != 'ok' or got[1] != mem[key]:
                        raise Mismatch('lookup-incoherent', 'lookup%s gives %r, resident value is %r'
                                       % (show_op(op), got, mem[key]))
                    bump(probes, 'lookup-resident')
                else:
                    if got[0] != 'KeyError':
                        raise Mismatch('lookup-incoherent', 'lookup%s returned %r for a key that is not resident'
                                       % (show_op(op), got))
                    bump(probes, 'lookup-absent')
            if f.__wrapped__ is not w.fn:
                raise Mismatch('wrapped', '__wrapped__ is not the original function')
            after = w.observe()
            if len(w.evals) != n0:
                raise Mismatch('probe-evaluates', '%s%s evaluated the function' % (kind, show_op(op)))
            if not obs_equal(before, after):
                raise Mismatch('probe-changed-state', '%s%s changed state: %s -> %s'
                               % (kind, show_op(op), obs_show(before), obs_show(after)))
            before = after
            continue
        # ---- management operations
        c = f.__cache__()
        if kind == 'vanish':
            shutil.rmtree(os.path.join(w.root, 'vol'), ignore_errors=True)
            w.vanished = True
            bump(faults, 'archive-storage-vanished')
            before = w.observe()
            continue
        if w.vanished and kind in ('load', 'load_k', 'dump', 'dump_k', 'on', 'off', 'clone', 'restart_dump'):
            # management operations on the vanished storage may fail; they are not what is checked here
            try:
                if kind in ('load', 'dump'):
                    getattr(f, kind)()
                bump(probes, 'management-op-after-storage-vanished')
            except Exception:
                bump(probes, 'management-op-failed-after-storage-vanished')
            before = w.observe()
            continue
        if kind == 'load':
            f.load()
            bump(faults, 'bulk-load')
            after = w.observe()
            if after['on'] and after['arch'] is not None and len(after['mem']) > (w.eff_maxsize or 0) \
               and w.eff_algo not in ('inf',):
                bump(probes, 'bulk-load-overfills')
        elif kind == 'dump' and cfg.get('unenc'):
            try:
                f.dump()
            except Exception:
                bump(faults, 'dump-refused-unencodable-value')
        elif kind == 'dump':
            f.dump()
        elif kind in ('load_k', 'dump_k'):
            keys = []
            for cop in op['calls']:
                a, k = _decode_call(cop)
                try:
                    keys.append(f.key(*a, **k))
                except Exception:
                    pass
            try:
                (f.load if kind == 'load_k' else f.dump)(*keys)
            except Exception:
                if not cfg.get('unenc'):
                    raise
                bump(faults, 'dump-refused-unencodable-value')
        elif kind in ('clear', 'clear_keep'):
            if kind == 'clear':
                f.clear()
                orc.stats = [0, 0, 0]
            else:
                f.clear(keepstats=True)
            orc.reset_usage()
            if prop == 'C07':
                orc.computed.clear()
            orc.evalcount.clear()
            after = w.observe()
            if prop in ('C15', 'C05') and w.eff_algo != 'no' and len(after['mem']) != 0 and not after['direct']:
                raise Mismatch('clear', 'clear() left %d entries resident' % len(after['mem']))
        elif kind == 'invalidate':
            # hand invalidation through the documented accessor: del f.__cache__()[key] for one resident entry
            ks = sorted(before['mem'], key=show)
            if ks and not before['direct']:
                victim = ks[seeds[step] % len(ks)]
                del c[victim]
                bump(faults, 'entry-invalidated-by-hand')
                orc.last_use.pop(victim, None)
                orc.count.pop(victim, None)
                orc.computed.pop(_hk(victim), None)
                orc.evalcount.pop(_hk(victim), None)
        elif kind == 'checkpoint':
            # the checkpoint idiom on the cache object itself: c = f.__cache__(); c.dump(); c.clear()
            if not before['direct'] and before['on']:
                c.dump()
                c.clear()
                bump(faults, 'checkpoint-through-cache-object')
                orc.reset_usage()
        elif kind == 'csync':
            if not before['direct'] and cfg['backend'] is not None:
                c.sync()                 # f.__cache__().sync(): dump, then load
                bump(faults, 'cache-sync')
        elif kind == 'sync_clear':
            if not before['direct'] and cfg['backend'] is not None:
                c.sync(clear=True)       # archive emptied, then everything resident dumped
                bump(faults, 'cache-sync-clear')
                orc.computed.clear()
                orc.evalcount.clear()
        elif kind == 'ext_clear':
            if not before['direct'] and cfg['backend'] is not None and B.is_persistent(cfg['backend']):
                # somebody else (a cleanup job, another worker) empties the shared store through a handle of its own
                w.at_home(lambda: B.make(cfg['backend'], w.root, cached=False)).clear()
                bump(faults, 'archive-cleared-through-another-handle')
                orc.computed.clear()
                orc.evalcount.clear()
        elif kind == 'gset':
            _GS['n'] += 1          # module-level state the (by-value pickled) function reads
            bump(faults, 'module-state-changed')
        elif kind == 'chdir':
            if cfg['backend'] is not None and cfg['backend'].get('rel'):
                away = os.path.join(w.root, 'elsewhere')
                os.makedirs(away, exist_ok=True)
                os.chdir(w.root if os.path.realpath(os.getcwd()) == os.path.realpath(away) else away)
                bump(faults, 'chdir')
        elif kind == 'off':
            if before['on']:
                f.archived(False)
                bump(faults, 'archive-toggled-off')
        elif kind == 'on':
            try:
                f.archived(True)
                bump(faults, 'archive-toggled-on')
            except ValueError:
                pass
        elif kind == 'swap':
            if cfg['backend'] is not None and not cfg['direct'] and cfg['backend']['label'] != 'sql-mem':
                w.swapped += 1
                b2 = dict(cfg['backend'], name='m%d' % w.swapped)
                f.archive(w.at_home(lambda: B.make(b2, w.root, cached=False)))
                bump(faults, 'archive-swapped')
        elif kind in ('restart', 'restart_dump', 'restart_opts'):
            if kind in ('restart_dump', 'restart_opts'):
                f.dump()
            if kind == 'restart_opts':
                cur = w.opts_label or cfg['backend']['label']
                w.opts_label = FAST_FAMILY[(FAST_FAMILY.index(cur) + 1 + seeds[step] % 2) % 3]
                bump(faults, 'reopened-with-other-storage-options')
                kind = 'restart_dump'
            del f, c
            w.f = None
            w.g = None
            w.build()
            orc.stats = [0, 0, 0]
            orc.reset_usage()
            if kind == 'restart':
                orc.computed.clear()
                orc.evalcount.clear()
            if cfg['backend'] is None or cfg['backend']['label'] in ('dict', 'null', 'sql-mem'):
                orc.computed.clear()
                orc.evalcount.clear()
            bump(faults, 'restart' if kind == 'restart' else 'restart-after-dump')
        elif kind == 'clone' and cfg['backend'] is not None and cfg['backend']['kind'] == 'sql':
            pass      # sqlite3 connections do not pickle (C04 known finding; C20 excludes them)
        elif kind == 'clone' and prop == 'twin':
            # the world that keeps the original: only what happened to the store in between
            if op.get('between') == 'ext_clear':
                w.at_home(lambda: B.make(cfg['backend'], w.root, cached=False)).clear()
        elif kind == 'clone':
            import dill
            snap = w.observe()
            try:
                blob = dill.dumps(f)
                if op.get('between') == 'ext_clear':
                    w.at_home(lambda: B.make(cfg['backend'], w.root, cached=False)).clear()
                    bump(faults, 'store-emptied-between-dumps-and-loads')
                    snap = dict(snap, arch={} if snap['arch'] is not None else None)
                g = dill.loads(blob)
            except Exception as e:
                raise Mismatch('clone-raises', 'dill round trip raised %s: %s' % (type(e).__name__, str(e)[:300]))
            w.orig, w.orig_snap = f, snap
            w.f = g
            bump(faults, 'dill-round-trip')
            after = w.observe()
            if after['info'] != snap['info'] or after['mem'] != snap['mem'] or after['on'] != snap['on'] \
               or (after['arch'] != snap['arch']):
                raise Mismatch('clone-differs', 'after the dill round trip: %s, original: %s'
                               % (obs_show(after), obs_show(snap)))
            if g.__wrapped__ is not w.fn and type(g.__wrapped__) is not type(w.fn):
                raise Mismatch('clone-differs', '__wrapped__ differs after the round trip')
            if repr(g.__map__()) != repr(f.__map__()) or g.__mask__() != f.__mask__():
                raise Mismatch('clone-differs', 'keymap/ignore differ after the round trip')
        after = w.observe()
        if kind in ('load', 'load_k', 'dump', 'dump_k', 'off', 'on', 'swap') and prop == 'C15':
            if tuple(after['info'])[:3] != tuple(before['info'])[:3]:
                raise Mismatch('stats', '%s changed the counters from %r to %r' % (kind, before['info'], after['info']))
        if kind in ('load', 'load_k', 'restart', 'restart_dump', 'clone', 'swap', 'off', 'on', 'dump', 'dump_k'):
            if kind not in ('dump', 'dump_k'):
                orc.call_only = False
        if kind in ('restart', 'restart_dump') and prop == 'C15':
            if tuple(after['info'])[:3] != (0, 0, 0):
                raise Mismatch('stats', 'fresh function reports %r' % (after['info'],))
        trace.append((step, after, kind, None))
        before = after
    # C20: the original must be untouched by what the clone did (in-memory state)
    if prop == 'C20' and w.orig is not None:
        f0 = w.orig
        c0 = f0.__cache__()
        now = {'info': tuple(f0.info()), 'mem': snapshot(c0)}
        shared = cfg['direct'] and cfg['backend'] is not None and B.is_persistent(cfg['backend'])
        if shared:
            # the archive used as the cache IS the shared persistent store
            now['mem'] = w.orig_snap['mem']
            now['info'] = now['info'][:4] + w.orig_snap['info'][4:]
        if now['info'] != w.orig_snap['info'] or now['mem'] != w.orig_snap['mem']:
            raise Mismatch('clone-not-independent', 'the original changed while only the copy was used: %r %s -> %r %s'
                           % (w.orig_snap['info'], show(w.orig_snap['mem']), now['info'], show(now['mem'])))
    for k, v in orc.probes.items():
        bump(probes, k, v)
    return trace, w


def execute(case, prop, ctx):
    root = ctx['root']
    clock = SimClock()
    fs = SimFS(root, clock=clock, stamp=True, order='sorted')
    fs.install()
    probes, faults = {}, {}
    viol = None
    steps = 0
    shape = ''
    digest = ''
    try:
        with fs:
            twin = prop in ('C16', 'C18', 'C20')
            w = None
            try:
                trace_a, w = run_world(case, prop, root, 'A', lambda step, op: False, fs, clock, probes, faults, None)
            except Mismatch as e:
                viol = {'class': e.vclass, 'step': getattr(_Cur.world, 'step', -1), 'detail': e.detail}
                trace_a = []
            steps = len(case['ops'])
            if viol is None and twin:
                if prop == 'C16':
                    raised = set(w.raised_steps)
                    skip = lambda step, op: step in raised
                elif prop == 'C18':
                    skip = lambda step, op: op['op'] in ('key', 'lookup')
                else:
                    skip = lambda step, op: op['op'] == 'clone' and not op.get('between')
                clock2 = SimClock()
                fs.clock = clock2
                p2, f2_ = {}, {}
                try:
                    trace_b, _ = run_world(case, 'twin16' if prop == 'C16' else 'twin', root, 'B', skip, fs, clock2, p2, f2_, None)
                except Mismatch as e:
                    trace_b = None
                    viol = {'class': 'twin-' + e.vclass, 'step': getattr(_Cur.world, 'step', -1), 'detail': e.detail}
                if trace_b is not None:
                    viol = compare_twins(case, prop, trace_a, trace_b, skip)
            h = hashlib.sha1()
            sh = []
            anon = bool(case['cfg'].get('plain'))     # keys embed (hashes of) memory addresses: count them instead
            for (step, o, kind, val) in trace_a:
                h.update(repr((step, o['info'], len(o['mem']) if anon else sorted(map(show, o['mem'])), o['on'],
                               (len(o['arch']) if anon else sorted(map(show, o['arch']))) if o['arch'] is not None else None,
                               kind, show(val))).encode())
                sh.append('%s%d' % (kind[:2], len(o['mem'])))
            digest = h.hexdigest()
            c = case['cfg']
            shape = hashlib.sha1(('|'.join(sh) + repr((c['module'], c['algo'], c['maxsize'], c['purge'],
                                                     c['keymap']['kind'], c['backend'] and c['backend']['label'],
                                                     c['direct']))).encode()).hexdigest()[:16]
    finally:
        fs.uninstall()
    nontrivial = probes.get('call-hit', 0) + probes.get('call-load', 0) > 0 and probes.get('call-miss', 0) > 0
    return {'viol': viol, 'probes': probes, 'faults': faults, 'steps': steps, 'shape': shape,
            'nontrivial': nontrivial, 'obs_digest': digest, 'sim_s': clock.elapsed + clock.slept,
            'real_events': fs.n_events}


def compare_twins(case, prop, ta, tb, skip):
    """observations on all shared steps must be identical"""
    db = dict((step, (o, kind, val)) for (step, o, kind, val) in tb)
    for (step, o, kind, val) in ta:
        if step not in db:
            continue
        ob, kb, vb = db[step]
        if prop == 'C20' and kind == 'clone':
            continue
        same_val = (val == vb) if kind == 'ok' else (val == vb or kind != kb or True)
        if not obs_equal(o, ob) or kind != kb or (kind == 'ok' and val != vb):
            what = {'C16': 'the world without the raising calls',
                    'C18': 'the world without key()/lookup() probes',
                    'C20': 'the world that kept the original function'}[prop]
            return {'class': 'twin-diverged', 'step': step,
                    'detail': 'step %d %s: this world %s -> %s; %s %s -> %s'
                              % (step, show_op(case['ops'][step]), kind, obs_show(o), what, kb, obs_show(ob))}
    return None


# --------------------------------------------------------------------------
# shrinking hints, signatures, evidence text

def shrink_budget(case):
    """re-running a thousand-step case costs seconds: minimise those only a little"""
    return 12 if len(case.get('ops', [])) > 400 or case['cfg'].get('huge') else 250


def simplify(case):
    cfg = case['cfg']
    def variant(**kw):
        c = _copy.deepcopy(case)
        c['cfg'].update(kw)
        return c
    if cfg['backend'] is not None and cfg['backend']['label'] not in ('dict',) and not cfg['direct']:
        yield variant(backend=B.config('dict', 'm0'))
    if cfg['backend'] is not None and not case.get('strict'):
        yield variant(backend=None, direct=False)
    if cfg['direct']:
        yield variant(direct=False)
    if cfg['keymap'] != {'kind': 'raw', 'arg': None, 'flat': True, 'typed': False, 'sentinel': cfg['fn'] in VARIADIC}:
        if cfg['backend'] is None or cfg['backend']['label'] in ('dict', 'null', 'file-pkl', 'dir-pkl'):
            yield variant(keymap={'kind': 'raw', 'arg': None, 'flat': True, 'typed': False,
                                  'sentinel': cfg['fn'] in VARIADIC})
        yield variant(keymap={'kind': 'hash', 'arg': 'md5', 'flat': True, 'typed': False,
                              'sentinel': cfg['fn'] in VARIADIC})
    if cfg['module'] == 'safe' and not any(op.get('bad') for op in case['ops']):
        yield variant(module='std')
    if cfg['purge']:
        yield variant(purge=False)
    if cfg['maxsize_pos']:
        yield variant(maxsize_pos=False)
    if isinstance(cfg['maxsize'], int) and cfg['maxsize'] > 1:
        yield variant(maxsize=cfg['maxsize'] - 1)
        yield variant(maxsize=1)
    if cfg.get('tol') is not None:
        yield variant(tol=None, deep=False)
    if cfg.get('ignore') is not None:
        yield variant(ignore=None)
    if cfg.get('bigres'):
        yield variant(bigres=False)
    for i, op in enumerate(case['ops']):
        if op['op'] in ('load_k', 'dump_k') and len(op['calls']) > 1:
            c = _copy.deepcopy(case)
            c['ops'][i]['calls'] = op['calls'][:1]
            yield c
        if op['op'] == 'restart_dump':
            c = _copy.deepcopy(case)
            c['ops'][i]['op'] = 'restart'
            yield c
        if op['op'] == 'call' and op.get('kw') and op['kw'][-1][0] != 'x':
            c = _copy.deepcopy(case)
            c['ops'][i]['kw'] = op['kw'][:-1]
            yield c


def signature(case, viol, prop):
    cfg = case['cfg']
    canon = {'load_k': 'load', 'dump_k': 'dump', 'restart_dump': 'restart', 'clear_keep': 'clear'}
    # calls made by other parties (second instance, sibling, shared decorator) and pure environment steps are
    # not part of the function's own history: they do not distinguish findings
    kinds = sorted(set(canon.get(op['op'], op['op']) for op in case['ops'])
                   - {'call', 'peer_call', 'sibling_call', 'codeco_call', 'chdir', 'advance'})
    feats = []
    if cfg['maxsize_pos'] and cfg['maxsize'] in (0, None):
        feats.append('maxsize-positional-%s' % cfg['maxsize'])
    if cfg['purge']:
        feats.append('purge')
    if cfg['direct']:
        feats.append('direct:' + B_family(cfg))
    elif cfg['backend'] is not None:
        feats.append('arch:' + B_family(cfg))
    if any(op.get('bad') for op in case['ops']):
        feats.append('bad-arg')
    if any(op.get('raises') for op in case['ops']):
        feats.append('raising-call')
    if cfg['keymap']['kind'] != 'raw' or not cfg['keymap']['flat']:
        feats.append('keymap:%s%s' % (cfg['keymap']['kind'], '' if cfg['keymap']['flat'] else '-nonflat'))
    algo = cfg['algo'] if cfg['maxsize'] not in (0, None) or cfg['algo'] in ('no', 'inf') else \
        '%s->%s' % (cfg['algo'], 'no' if cfg['maxsize'] == 0 else 'inf')
    return '%s|%s.%s|%s|%s|%s' % (prop, cfg['module'], algo, viol['class'], '+'.join(kinds) or 'calls',
                                  '+'.join(feats) or '-')


def B_family(cfg):
    label = cfg['backend']['label']
    return label if label in ('file-src', 'dir-src', 'sql-mem') else label.split('-')[0]


RULES = {
    'C01': 'every returned value is compared with a direct evaluation of the undecorated function',
    'C02': 'an evaluation is legitimate only if the key was neither resident nor in the attached archive just before '
           'the call; in "strict" runs (lossless archive attached throughout, graceful restarts only) every key is '
           'evaluated at most once over the whole history',
    'C05': 'after every call len(cache) <= max(maxsize, len before); maxsize 0/None (keyword and positional) behave as '
           'no/inf; purge on an archived cache empties memory on overflow',
    'C06': 'call-only histories from an empty cache (plus raising calls): the set that leaves memory on overflow is '
           'exactly what the policy selects, computed from last-use stamps / use counts kept by the harness',
    'C07': 'every key that leaves memory during a call is in the attached archive with the same value; no archived '
           'entry changes or disappears; in strict runs every computed result stays retrievable',
    'C15': 'info() equals (hits, misses, loads) classified from the evaluation log and residency just before each '
           'call, plus configured maxsize and current size; management operations change no counter',
    'C16': 'the injected exception object itself reaches the caller after one evaluation and leaves info/cache/archive '
           'unchanged; a twin world without the raising calls must show identical observations on every other step; '
           'safe variants with unhashable/unencodable arguments evaluate once and return the result',
    'C18': 'key() names the entry a call creates, lookup() returns the resident value or raises KeyError, neither '
           'evaluates nor changes anything; a twin world without the probes must show identical observations',
    'C20': 'dill round trip at a seeded step: equal cache/info/settings at the round trip; the world continuing with '
           'the copy and the world continuing with the original show identical observations; the original is '
           'unchanged by what the copy did',
}


def evidence_info(prop):
    return {
        'rule': 'each run = one seeded configuration (std/safe x no/inf/lfu/lru/mru/rr x maxsize (keyword or positional, '
                'incl. 0/None) x purge x keymap (raw/string/pickle/named hash; flat, typed, sentinel) x backend (none, '
                'cache+null/dict/file/dir/sqlite in every encoding, or the archive used directly) x signature family) '
                'and a seeded history of 5-400 steps: calls in several spellings over a small hot set, raising calls, '
                'unhashable arguments (safe), load/dump/clear/toggle/swap, restarts, dill round trips, calls of a second '
                'decorated instance on the same persistent archive, of a sibling function sharing the code object, of a '
                'second function made by the same decorator object. Swarm options per run: rarer argument kinds (empty / '
                'long shared-prefix / slash strings, big and negative ints, tuple, bytes), "wide" runs (maxsize 30/40 with '
                '45-80 distinct calls), "sweep" workloads (working set = cache size used equally often, then newcomers), '
                '"bigres" runs (1.2 MB results). A tenth of the calls each return None, \'\', 0, a 9 kB string. Wrapped '
                'callables: plain functions of every signature shape, bound method, callable instance, partials (one '
                'overriding a keyword-only default), functools.wraps decorator, a builtin, a recursive function, a '
                'nine-parameter function (flat keys of more than 16 items), a function without named parameters, one whose '
                'parameter names differ by case only, a generator function (C15), a by-value nested function. In 6% of the runs '
                'of C01 C05 C06 C07 C15 C20 the decorator OBJECT is copied / deep-copied / dill-pickled before it decorates. '
                'In 8% of all runs another decorator object of the same class (other maxsize / purge) is built first; in some C01 C15 C18 '
                'runs the decorator object also decorates another function. Results include strings that look like numbers and bytes '
                'that are complete pickles. Un-keyable arguments (safe caches): '
                'lists, dicts, sets, objects whose repr/pickling/hash raise, a writable memoryview. Raising calls '
                'raise an Exception, a BaseException (interrupt-like) or a TimeoutError / KeyError / TypeError subclass, a fifth '
                'of them `from` an explicit cause. Per '
                'property: C01 adds two live default-repr objects as arguments; C01/C02 re-open klepto-pickler directory '
                'archives with another compatible option set at a restart; C06 adds MRU attach-and-load histories; C02 adds float nan arguments (raw keymap, pickled directory archives); C05 adds the storage '
                'fault "vanish" (the archive\'s directory is removed mid-run, later operations may fail, the bound must '
                'hold) and decorators built without maxsize (bound 100, 103-125 distinct calls); C02/C07 add steps where the '
                'shared store is emptied through another handle or by cache.sync(clear=True), one entry is invalidated by hand '
                'through f.__cache__(), or the cache object is checkpointed (dump + clear); C20 adds f.__cache__().sync() steps; C16 rr runs seed the global random once per run; C20 round trips may have '
                'the store emptied between dumps() and loads(); C06 adds purge configurations whose archive is switched off mid-run; tol runs (C16 C18 C20) add a '
                'float subclass and floats nested in tuples (deep rounding). Oracle: '
                + RULES[prop] + '. distinct = distinct (configuration, sequence of (step kind, resident count)); '
                'non-trivial = the history contains at least one miss and at least one hit or load',
        'components': {
            'real': ['klepto._cache and klepto.safe decorators, klepto.keymaps, klepto._inspect, klepto.rounding, '
                     'klepto archives (all installed backends), dill, pox, sqlite3, importlib, tmpfs'],
            'simulated': ['call/management/restart/fault schedule', 'file and directory mtimes', 'directory listing order',
                          "klepto's global random (RR victims, temp names) re-seeded before every step",
                          'PYTHONHASHSEED per block'],
            'stub_or_absent': ['sqlalchemy / hdf5 / pandas backends (not installed)'],
        },
        'assumptions': [
            'wrapped callables are deterministic and equality-respecting; results are strings, None, \'\' or 0 (lossless in '
            'every encoding); the builtin kind (max over two comparison-logging ints) is not used with source-text archives',
            'argument pools never mix values that compare equal across types (1, 1.0, True)',
            'flat keymaps are used with variadic signatures only when a sentinel is configured (information preserving)',
            'a restart drops every Python reference and rebuilds decorator and archive handle on the same location; '
            'in-memory archives do not survive it',
        ],
    }
