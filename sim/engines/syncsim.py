"""syncsim (C08): the cache/archive synchronisation algebra.

A klepto `cache` (dict + archive) bound to an archive of any backend, driven
by seeded interleavings of cache mutations, direct archive mutations,
dump/load/sync (with and without keys), archived(on/off), open/drop.  The
reference model is two plain dicts plus "which archive is attached / parked"
written from the property statement; after every step dict(cache), the
contents of every real archive (attached, parked, replaced) and archived()
are compared.
"""
import os
import json
import copy as _copy
import random as _random
import hashlib

from sim import backends as B
from sim.values import enc, dec, show
from sim.simfs import SimFS, SimClock
from sim.engines.archsim import key_domain, value_domain, same, same_dict, family

PROPS = ['C08']

OPS = [(10, 'cset'), (4, 'cdel'), (3, 'cpop'), (4, 'cupdate'), (2, 'cclear'), (2, 'csetdefault'),
       (5, 'aset'), (3, 'adel'), (2, 'aupdate'), (1, 'aclear'), (3, 'xset'), (2, 'xdel'),
       (7, 'dump'), (5, 'dump_k'), (7, 'load'), (5, 'load_k'), (5, 'sync'), (3, 'sync_clear'),
       (3, 'archived'), (3, 'akeys'), (4, 'off'), (4, 'on'), (2, 'open'), (1, 'drop'), (2, 'advance'), (2, 'popkeys')]


def generate(rng, prop, tier):
    label = rng.weighted([(3, 'dict'), (2, 'null')] + [(2, l) for l in B.PERSISTENT] + [(2, 'sql-mem')])
    doms = key_domain(label)
    keys = []
    for d in doms:
        keys.extend(rng.sample(d, min(len(d), 2)))
    rng.shuffle(keys)
    keys = [enc(k) for k in keys[:rng.randint(3, 6)]]
    vals = value_domain(label)
    n = rng.randint(5, 40)
    ops = []
    nopen = 0
    for _ in range(n):
        kind = rng.weighted(OPS)
        op = {'op': kind}
        k = lambda: rng.choice(keys)
        v = lambda: rng.choice(vals)
        if kind in ('xset', 'xdel') and not B.is_persistent(B.config(label, 's0')):
            kind = {'xset': 'aset', 'xdel': 'adel'}[kind]       # no second handle on an in-memory archive
            op = {'op': kind}
        if kind in ('cset', 'aset', 'csetdefault', 'xset'):
            op['k'], op['v'] = k(), v()
        elif kind in ('cdel', 'cpop', 'adel', 'xdel'):
            op['k'] = k()
        elif kind in ('cupdate', 'aupdate'):
            op['m'] = [[k(), v()] for _ in range(rng.randint(0, 3))]
        elif kind in ('dump_k', 'load_k', 'popkeys'):
            op['ks'] = [k() for _ in range(rng.randint(1, 3))]
        elif kind == 'open':
            if nopen >= 2 or label == 'sql-mem':
                op = {'op': 'archived'}
            else:
                nopen += 1
                op['name'] = 's%d' % nopen
        elif kind == 'advance':
            op['dt'] = rng.choice([1, 2, 3600])
        ops.append(op)
    if label in ('sql-file', 'file-pkl', 'file-json', 'dir-pkl', 'dir-json') and rng.chance(0.08):
        # one bulk step: several hundred entries go into the cache at once and reach the archive through a
        # single dump()/sync() (batch paths of a backend are only taken above some size)
        ops = ops[:10]
        ops.insert(rng.randint(0, len(ops)), {'op': 'cbulk', 'n': rng.choice([520, 600, 1100])})
        ops.append({'op': rng.choice(['dump', 'sync'])})
    return {'engine': 'syncsim', 'prop': prop, 'backend': B.with_link(rng, label, B.config(label, B.odd_name(rng, label, 's0'))), 'ops': ops,
            # 'fresh': the archives are read back through NEW handles on the same location (what is in the store,
            # not what one connection believes); 'same': through the handle the cache holds
            'reader': rng.choice(['fresh', 'same']),
            'kseed': rng.below(1 << 30), 'seedfill': rng.chance(0.3) and
            [[rng.choice(keys), rng.choice(vals)] for _ in range(rng.randint(1, 3))] or [],
            # sparse: cache and archives are read back only every few steps and at the end, so that the
            # harness's reads do not hide state one step leaves for the next
            'observe': rng.weighted([(7, 'full'), (3, 'sparse')])}


class Mismatch(Exception):
    def __init__(self, vclass, detail):
        Exception.__init__(self, detail)
        self.vclass = vclass
        self.detail = detail


def call(fn):
    try:
        return ('ok', fn())
    except KeyError:
        return ('KeyError', None)
    except ValueError as e:
        return ('ValueError', str(e)[:100])
    except Exception as e:
        return (type(e).__name__, str(e)[:200])


def execute(case, prop, ctx):
    import klepto.archives as ka
    root = ctx['root']
    clock = SimClock()
    fs = SimFS(root, clock=clock, order='sorted')
    fs.install()
    cfg = case['backend']
    # source-text archives: every rewrite in its own simulated second (one dump(k1, k2) rewrites the file twice);
    # the same-second stale-.pyc read is C03/C04's known finding, not the sync algebra
    fs.autotick = cfg['label'] in ('file-src', 'dir-src')
    null = cfg['label'] == 'null'
    probes, faults = {}, {}
    obs = []
    viol = None
    step = -1
    shape = []

    def bump(d, k, n=1):
        d[k] = d.get(k, 0) + n
    try:
        with fs:
            _random.seed(case['kseed'])
            krng = _random.Random(case['kseed'])
            c = B.make(cfg, root, cached=True)
            reals = [c.archive]             # every real archive object ever attached
            rcfgs = [cfg]
            models = [{}]                   # their model contents
            isnull = [null]
            mem = {}
            attached = 0                    # index into reals, or None (null archive)
            parked = None
            if null:
                attached = None
            if case.get('seedfill'):
                d = dict((dec(k), dec(v)) for k, v in case['seedfill'])
                c.update(d)
                mem.update(d)

            def check(what):
                got = dict(c)
                if not same_dict(got, mem):
                    raise Mismatch('cache-contents', '%s: cache holds %s, model %s' % (what, show(got), show(mem)))
                for i, a in enumerate(reals):
                    try:
                        if case.get('reader') == 'fresh' and B.is_persistent(rcfgs[i]):
                            a = B.make(rcfgs[i], root, cached=False)
                        d = dict(a.items())
                    except Exception as e:
                        raise Mismatch('archive-unreadable', '%s: archive %d unreadable: %s %s'
                                       % (what, i, type(e).__name__, str(e)[:100]))
                    m = {} if isnull[i] else models[i]
                    if not same_dict(d, m):
                        cls = 'archive-contents' if i == attached else \
                            'parked-archive-changed' if i == parked else 'detached-archive-changed'
                        raise Mismatch(cls, '%s: archive %d holds %s, model %s (attached=%r parked=%r)'
                                       % (what, i, show(d), show(m), attached, parked))
                on = bool(c.archived())
                exp_on = attached is not None and not isnull[attached]
                if on != exp_on:
                    raise Mismatch('archived-flag', '%s: archived() is %r, model says %r' % (what, on, exp_on))
            check('initially')
            for step, op in enumerate(case['ops']):
                _random.seed(krng.getrandbits(32))
                kind = op['op']
                if cfg['label'] == 'file-src':
                    # keep every rewrite in its own second: the same-second stale-.pyc read of
                    # source-text archives is C03/C04's known finding, not the sync algebra
                    clock.advance(1)
                att = None if attached is None or isnull[attached] else models[attached]
                if kind == 'advance':
                    clock.advance(op['dt'])
                    continue
                if kind == 'cset':
                    c[dec(op['k'])] = dec(op['v'])
                    mem[dec(op['k'])] = dec(op['v'])
                elif kind == 'csetdefault':
                    c.setdefault(dec(op['k']), dec(op['v']))
                    mem.setdefault(dec(op['k']), dec(op['v']))
                elif kind == 'cdel':
                    e = call(lambda: mem.__delitem__(dec(op['k'])))
                    g = call(lambda: c.__delitem__(dec(op['k'])))
                    if e[0] != g[0]:
                        raise Mismatch('cache-op', 'del: model %s, cache %s' % (e[0], g[0]))
                elif kind == 'cpop':
                    e = call(lambda: mem.pop(dec(op['k'])))
                    g = call(lambda: c.pop(dec(op['k'])))
                    if e[0] != g[0] or (e[0] == 'ok' and not same(e[1], g[1])):
                        raise Mismatch('cache-op', 'pop: model %r, cache %r' % (e, g))
                elif kind == 'popkeys':
                    ks = [dec(x) for x in op['ks']]
                    trial = dict(mem)
                    try:
                        for x in ks:
                            trial.pop(x)
                        e = ('ok', [mem.pop(x) for x in ks])
                    except KeyError:
                        e = ('KeyError', None)
                    g = call(lambda: c.popkeys(ks))
                    if e[0] != g[0]:
                        raise Mismatch('cache-op', 'popkeys: model %s, cache %s' % (e[0], g[0]))
                elif kind == 'cupdate':
                    d = dict((dec(a), dec(b)) for a, b in op['m'])
                    c.update(d)
                    mem.update(d)
                elif kind == 'cbulk':
                    d = dict(('b%d' % i, i) for i in range(1000, 1000 + op['n']))
                    c.update(d)
                    mem.update(d)
                    bump(faults, 'bulk-fill')
                elif kind == 'cclear':
                    c.clear()
                    mem.clear()
                elif kind in ('aset', 'adel', 'aupdate', 'aclear'):
                    # direct mutation of the first real archive, wherever it currently is
                    a, m = reals[0], models[0]
                    bump(faults, 'direct-archive-mutation')
                    if kind == 'aset':
                        a[dec(op['k'])] = dec(op['v'])
                        if not isnull[0]:
                            m[dec(op['k'])] = dec(op['v'])
                    elif kind == 'adel':
                        e = call(lambda: m.__delitem__(dec(op['k']))) if not isnull[0] else ('KeyError', None)
                        g = call(lambda: a.__delitem__(dec(op['k'])))
                        if e[0] != g[0]:
                            raise Mismatch('archive-op', 'del on archive: model %s, archive %s' % (e[0], g[0]))
                    elif kind == 'aupdate':
                        d = dict((dec(x), dec(y)) for x, y in op['m'])
                        a.update(d)
                        if not isnull[0]:
                            m.update(d)
                    else:
                        a.clear()
                        m.clear()
                elif kind in ('xset', 'xdel'):
                    # somebody else's handle on the same location (another cache, another process) changes an entry
                    other = B.make(rcfgs[0], root, cached=False)
                    m = models[0]
                    bump(faults, 'mutation-through-another-handle')
                    if kind == 'xset':
                        other[dec(op['k'])] = dec(op['v'])
                        m[dec(op['k'])] = dec(op['v'])
                    else:
                        e = call(lambda: m.__delitem__(dec(op['k'])))
                        g = call(lambda: other.__delitem__(dec(op['k'])))
                        if e[0] != g[0]:
                            raise Mismatch('archive-op', 'del through another handle: model %s, archive %s' % (e[0], g[0]))
                    del other
                elif kind == 'dump':
                    c.dump()
                    if att is not None:
                        att.update(mem)
                        bump(probes, 'dump-on')
                    else:
                        bump(probes, 'dump-while-off-or-null')
                elif kind == 'dump_k':
                    ks = [dec(x) for x in op['ks']]
                    c.dump(*ks)
                    if att is not None:
                        for x in ks:
                            if x in mem:
                                att[x] = mem[x]
                elif kind == 'load':
                    c.load()
                    if att is not None:
                        mem.update(att)
                        bump(probes, 'load-on')
                    else:
                        bump(probes, 'load-while-off-or-null')
                elif kind == 'load_k':
                    ks = [dec(x) for x in op['ks']]
                    c.load(*ks)
                    if att is not None:
                        for x in ks:
                            if x in att:
                                mem[x] = att[x]
                            else:
                                bump(probes, 'load-absent-key')
                elif kind == 'sync':
                    c.sync()
                    if att is not None:
                        att.update(mem)
                        mem.update(att)
                        bump(probes, 'sync-on')
                elif kind == 'sync_clear':
                    c.sync(clear=True)
                    if att is not None:
                        att.clear()
                        att.update(mem)
                elif kind == 'archived':
                    pass
                elif kind == 'akeys':
                    # a bare key listing of the attached archive (no value is read): what a user does before load(k)
                    got = call(lambda: list(c.archive.keys()) if step % 2 else list(iter(c.archive)))
                    want = att if att is not None else {}
                    if got[0] != 'ok' or not same_dict(dict((k, 0) for k in got[1]), dict((k, 0) for k in want)):
                        raise Mismatch('archive-keys', 'keys of the attached archive: %s, model %s'
                                       % (show(got[1]) if got[0] == 'ok' else got, show(sorted(map(show, want)))))
                    bump(probes, 'bare-key-listing')
                elif kind == 'off':
                    c.archived(False)
                    if attached is not None and not isnull[attached]:
                        parked, attached = attached, None
                        bump(faults, 'toggle-off')
                elif kind == 'on':
                    g = call(lambda: c.archived(True))
                    if parked is not None:
                        if g[0] != 'ok':
                            raise Mismatch('toggle', 'archived(True) with a parked archive raised %s' % g[0])
                        attached, parked = parked, None
                        bump(faults, 'toggle-on')
                    elif attached is None or isnull[attached]:
                        if g[0] != 'ValueError':
                            raise Mismatch('toggle', 'archived(True) with no archive gave %r, expected ValueError' % (g,))
                elif kind == 'open':
                    b2 = dict(cfg, name=op['name'])
                    a2 = B.make(b2, root, cached=False)
                    c.open(a2)
                    reals.append(a2)
                    rcfgs.append(b2)
                    models.append({})
                    isnull.append(null)
                    attached, parked = len(reals) - 1, None
                    bump(faults, 'open-other-archive')
                elif kind == 'drop':
                    g = call(lambda: c.drop())
                    # the statement is silent on drop() without an archive: either outcome is adopted
                    if g[0] in ('ok',) or (g[0] == 'ValueError' and parked is None):
                        if g[0] == 'ok':
                            attached, parked = None, None
                    else:
                        raise Mismatch('drop', 'drop() raised %s %s' % (g[0], g[1]))
                    bump(faults, 'drop')
                if case.get('observe') != 'sparse' or step % 4 == 3 or step == len(case['ops']) - 1:
                    check('after step %d %s' % (step, json.dumps(op, sort_keys=True)[:200]))
                else:
                    bump(probes, 'sparse-step-without-read-back')
                shape.append('%s:%d:%s' % (kind, len(mem), 'on' if attached is not None else 'off'))
                obs.append([kind, sorted(map(show, mem))])
    except Mismatch as e:
        viol = {'class': e.vclass, 'step': step, 'detail': e.detail}
    finally:
        fs.uninstall()
    sh = hashlib.sha1(('|'.join(shape) + cfg['label']).encode()).hexdigest()[:16]
    return {'viol': viol, 'probes': probes, 'faults': faults, 'steps': step + 1, 'shape': sh,
            'nontrivial': len(shape) >= 3,
            'obs_digest': hashlib.sha1(json.dumps(obs).encode()).hexdigest(),
            'sim_s': clock.elapsed, 'real_events': fs.n_events}


def simplify(case):
    if case['backend']['label'] != 'dict':
        c = _copy.deepcopy(case)
        c['backend'] = B.config('dict', 's0')
        yield c
    if case.get('seedfill'):
        c = _copy.deepcopy(case)
        c['seedfill'] = []
        yield c
    if case.get('observe') == 'sparse':
        c = _copy.deepcopy(case)
        c['observe'] = 'full'
        yield c
    if case.get('reader') == 'fresh':
        c = _copy.deepcopy(case)
        c['reader'] = 'same'
        yield c
    for i, op in enumerate(case['ops']):
        if op['op'] == 'cbulk' and op['n'] > 3:
            c = _copy.deepcopy(case)
            c['ops'][i]['n'] = 3
            yield c
    for i, op in enumerate(case['ops']):
        if 'v' in op and op['v'] not in (7, 'v'):
            c = _copy.deepcopy(case)
            c['ops'][i]['v'] = 7
            yield c
        if 'm' in op and len(op['m']) > 1:
            c = _copy.deepcopy(case)
            c['ops'][i]['m'] = op['m'][:1]
            yield c
        if 'ks' in op and len(op['ks']) > 1:
            c = _copy.deepcopy(case)
            c['ops'][i]['ks'] = op['ks'][:1]
            yield c


def signature(case, viol, prop):
    label = case['backend']['label']
    famb = label if label in ('file-src', 'dir-src', 'sql-mem') else label.split('-')[0]
    step = viol.get('step', -1)
    ops = case['ops']
    failing = ops[step]['op'] if 0 <= step < len(ops) else '?'
    return '%s|%s|%s|%s' % (prop, famb, viol['class'], failing)


def evidence_info(prop):
    return {
        'rule': 'each run = one backend (null, dict, file/dir in every encoding, sqlite file/memory) with a cache bound '
                'to it and a seeded interleaving of 5-40 steps: cache mutations, direct archive mutations, dump(), '
                'dump(keys), load(), load(keys incl. absent), sync(), sync(clear=True), archived(), archived(False/True), '
                'open(other archive), drop(). After every step dict(cache), the contents of every real archive ever '
                'attached (attached, parked, replaced) and archived() are compared with a two-dict model written from the '
                'statement. distinct = distinct (backend, sequence of (step kind, cache size, on/off)); non-trivial = at '
                'least three compared steps',
        'components': {
            'real': ['klepto.archives.cache (dump/load/sync/archived/open/drop) over every installed archive backend'],
            'simulated': ['operation schedule', 'file mtimes', 'listing order', "klepto's random temp names"],
            'stub_or_absent': ['sqlalchemy / hdf5 backends (not installed)'],
        },
        'assumptions': ['keys/values restricted to what each encoding stores losslessly',
                        'where the statement is silent (drop() without an archive) the observed outcome is adopted'],
    }
