"""The disk / clock / sqlite seam.

One interposer object per simulated session (process).  It is armed only
while klepto code runs and acts only on paths under the sandbox root.  All
seams are module attributes rebound from outside; nothing in /repo changes.

Modes (combinable):
  trace   every intercepted call is appended to .log as (kind, relpath)
  crash   os._exit(137) right before the k-th *mutating* call (or, for a
          raw write, after a strict prefix of the data has been written)
  yield   before every intercepted call the pending event is handed to a
          scheduler callback, which blocks until this session may proceed
  stamp   file and directory mtimes are set from the simulated clock
  order   listdir / scandir results come back sorted or permuted by a PRNG
"""
import io
import os
import sys
import stat as _stat
import builtins

_real = {}


def _save_real():
    if _real:
        return
    import shutil, time, tempfile, sqlite3
    for name in ('mkdir', 'rmdir', 'unlink', 'remove', 'rename', 'replace',
                 'listdir', 'scandir', 'stat', 'lstat', 'utime'):
        _real[name] = getattr(os, name)
    _real['open'] = builtins.open
    _real['sleep'] = time.sleep
    _real['time'] = time.time
    _real['mktemp'] = tempfile.mktemp
    _real['connect'] = sqlite3.connect
    _real['use_fd'] = shutil._use_fd_functions


MUTATING = frozenset(['mkdir', 'open-w', 'truncated', 'write', 'close-w', 'unlink',
                      'rmdir', 'rename', 'sql-dml', 'sql-commit', 'sql-script'])


class SimClock(object):
    """integer seconds plus a strictly increasing nanosecond tiebreak"""
    def __init__(self, start=1700000000, slot=0):
        self.now = start
        self.tick = 0
        self.slot = slot % 8      # stamps made by different processes never coincide
        self.slept = 0.0
        self.elapsed = 0

    def advance(self, dt):
        self.now += dt
        self.elapsed += abs(dt)

    def stamp_ns(self, coarse=False):
        if coarse:
            return self.now * 1000000000
        # 1 microsecond per tick: importlib's FileFinder compares directory
        # mtimes as floats (~240 ns resolution at today's epoch)
        self.tick += 1
        return self.now * 1000000000 + ((self.tick * 8 + self.slot) % 1000000) * 1000


class CrashNow(BaseException):
    pass


class _SimFileIO(io.FileIO):
    """raw file whose write()/close() are visible events"""
    def __init__(self, fs, path, mode):
        io.FileIO.__init__(self, path, mode)
        self._fs = fs
        self._path = path
        self._closed_once = False

    def write(self, b):
        fs = self._fs
        if fs is not None and fs.armed:
            n = fs.event('write', self._path, len(b), data=b, raw=self)
            if n is not None:
                return n
        return io.FileIO.write(self, b)

    def close(self):
        fs = self._fs
        if not self._closed_once and not self.closed:
            self._closed_once = True
            if fs is not None and fs.armed:
                fs.event('close-w', self._path)
            io.FileIO.close(self)
            if fs is not None:
                fs.stamp_file(self._path)
            return
        io.FileIO.close(self)


class SimFS(object):
    def __init__(self, root, clock=None, trace=False, crash_at=None,
                 crash_partial=None, sched=None, stamp=True, order='sorted',
                 order_rng=None, coarse_dirs=False, sql_busy_limit=5.0):
        _save_real()
        self.root = os.path.realpath(root)
        self.clock = clock or SimClock()
        self.trace = trace
        self.log = []
        self.crash_at = crash_at          # index among mutating events
        self.crash_partial = crash_partial  # fraction in (0,1) or None
        self.sched = sched                # callable(kind, rel, mutating) -> None
        self.stamp = stamp
        self.order = order
        self.order_rng = order_rng
        self.coarse_dirs = coarse_dirs
        self.sql_busy_limit = sql_busy_limit
        self.autotick = False             # advance the simulated clock by 1 s after every completed file write
        self.armed = False
        self.installed = False
        self.n_mut = 0
        self.n_events = 0
        self.counts = {}
        self.sql_conns = []

    # ------------------------------------------------------------------
    def rel(self, path):
        try:
            if isinstance(path, bytes):
                path = os.fsdecode(path)
            if not isinstance(path, str):
                return None
            p = os.path.abspath(path)
            if p == self.root:
                return '.'
            if p.startswith(self.root + os.sep):
                return p[len(self.root) + 1:]
        except Exception:
            pass
        return None

    def event(self, kind, path, size=None, data=None, raw=None):
        """called before the real call happens; may not return (crash)"""
        if not self.armed:
            return None
        rel = self.rel(path) if path is not None else ''
        if rel is None:
            return None
        mut = kind in MUTATING
        self.n_events += 1
        self.counts[kind] = self.counts.get(kind, 0) + 1
        if self.trace:
            self.log.append((kind, rel) if size is None else (kind, rel, size))
        if self.sched is not None:
            self.armed = False
            try:
                self.sched(kind, rel, mut)
            finally:
                self.armed = True
        if mut:
            k = self.n_mut
            self.n_mut += 1
            if self.crash_at is not None and k == self.crash_at:
                if kind == 'write' and self.crash_partial is not None \
                   and data is not None and len(data) > 1:
                    cut = max(1, min(len(data) - 1,
                                     int(len(data) * self.crash_partial)))
                    io.FileIO.write(raw, bytes(data[:cut]))
                os._exit(137)
        return None

    # ------------------------------------------------------------------
    def stamp_file(self, path):
        if not self.stamp:
            return
        try:
            if self.autotick:
                self.clock.advance(1)
            ns = self.clock.stamp_ns()
            _real['utime'](path, ns=(ns, ns))
        except OSError:
            pass

    def stamp_dir(self, path):
        if not self.stamp:
            return
        try:
            ns = self.clock.stamp_ns(self.coarse_dirs)
            _real['utime'](path, ns=(ns, ns))
        except OSError:
            pass

    def _parent(self, path):
        return os.path.dirname(os.path.abspath(path))

    # ------------------------------------------------------------------
    # patched entry points
    def _open(self, file, mode='r', *args, **kwds):
        if not self.armed or not isinstance(file, (str, bytes)) \
           or self.rel(file) is None:
            return _real['open'](file, mode, *args, **kwds)
        writing = any(c in mode for c in 'wax+')
        if not writing:
            self.event('open-r', file)
            return _real['open'](file, mode, *args, **kwds)
        existed = os.path.lexists(file)
        self.event('open-w', file)
        rawmode = mode.replace('b', '').replace('t', '')
        raw = _SimFileIO(self, file, rawmode)
        if not existed:
            self.stamp_dir(self._parent(file))
        elif 'w' in mode:
            # an EXISTING file was just emptied by the open: a point of its own (a reader or a crash right here
            # finds the file empty), reported after the fact
            self.event('truncated', file)
        buffering = kwds.get('buffering', args[0] if args else -1)
        if buffering == 0:
            return raw
        buf = io.BufferedWriter(raw) if '+' not in mode else io.BufferedRandom(raw)
        if 'b' in mode:
            return buf
        encoding = kwds.get('encoding', None)
        return io.TextIOWrapper(buf, encoding=encoding,
                                errors=kwds.get('errors', None),
                                newline=kwds.get('newline', None))

    def _mkdir(self, path, mode=0o777, **kw):
        if self.armed and self.rel(path) is not None:
            self.event('mkdir', path)
            r = _real['mkdir'](path, mode, **kw)
            self.stamp_dir(path)
            self.stamp_dir(self._parent(path))
            return r
        return _real['mkdir'](path, mode, **kw)

    def _rmdir(self, path, **kw):
        if self.armed and self.rel(path) is not None:
            self.event('rmdir', path)
            r = _real['rmdir'](path, **kw)
            self.stamp_dir(self._parent(path))
            return r
        return _real['rmdir'](path, **kw)

    def _unlink(self, path, **kw):
        if self.armed and self.rel(path) is not None:
            self.event('unlink', path)
            r = _real['unlink'](path, **kw)
            self.stamp_dir(self._parent(path))
            return r
        return _real['unlink'](path, **kw)

    def _rename(self, src, dst, **kw):
        if self.armed and self.rel(src) is not None:
            self.event('rename', src)
            r = _real['rename'](src, dst, **kw)
            self.stamp_dir(self._parent(src))
            self.stamp_dir(self._parent(dst))
            return r
        return _real['rename'](src, dst, **kw)

    def _replace(self, src, dst, **kw):
        if self.armed and self.rel(src) is not None:
            self.event('rename', src)
            r = _real['replace'](src, dst, **kw)
            self.stamp_dir(self._parent(src))
            self.stamp_dir(self._parent(dst))
            return r
        return _real['replace'](src, dst, **kw)

    def _listdir(self, path='.'):
        if self.armed and self.rel(path) is not None:
            self.event('listdir', path)
            names = _real['listdir'](path)
            return self._reorder(names, key=lambda n: n)
        return _real['listdir'](path)

    def _scandir(self, path='.'):
        if self.armed and isinstance(path, (str, bytes)) \
           and self.rel(path) is not None:
            self.event('listdir', path)
            with _real['scandir'](path) as it:
                entries = list(it)
            return _ScanCtx(self._reorder(entries, key=lambda e: e.name))
        return _real['scandir'](path)

    def _reorder(self, items, key):
        items = sorted(items, key=key)
        if self.order == 'permute' and self.order_rng is not None and len(items) > 1:
            self.order_rng.shuffle(items)
        elif self.order == 'reverse':
            items.reverse()
        return items

    def _stat(self, path, *a, **kw):
        if self.armed and isinstance(path, (str, bytes)) \
           and self.rel(path) is not None:
            self.event('stat', path)
        return _real['stat'](path, *a, **kw)

    def _lstat(self, path, *a, **kw):
        if self.armed and isinstance(path, (str, bytes)) \
           and self.rel(path) is not None:
            self.event('stat', path)
        return _real['lstat'](path, *a, **kw)

    def _sleep(self, secs):
        if self.armed:
            self.clock.slept += secs
            self.counts['sleep'] = self.counts.get('sleep', 0) + 1
            return None
        return _real['sleep'](secs)

    def _time(self):
        """wall-clock reads made by the code under test see the same clock that stamps the files"""
        if self.armed:
            return self.clock.now + self.clock.slept + (self.clock.tick % 1000000) * 1e-6
        return _real['time']()

    def _mktemp(self, *a, **kw):
        # klepto calls tempfile.mktemp right before an import-based read:
        # used as the 'import-read' event (the import itself is atomic here)
        if self.armed:
            self.event('import-r', self.root)
        return _real['mktemp'](*a, **kw)

    def _connect(self, database, *a, **kw):
        if self.armed and isinstance(database, str) and database != ':memory:' \
           and self.rel(database) is not None:
            self.event('sql-open', database)
            kw['timeout'] = 0
            conn = _real['connect'](database, *a, **kw)
            proxy = _ConnProxy(self, conn, database)
            self.sql_conns.append(proxy)
            return proxy
        return _real['connect'](database, *a, **kw)

    # ------------------------------------------------------------------
    def install(self):
        import shutil, time, tempfile, sqlite3
        import klepto._archives as _ka
        import klepto._pickle as _kp
        os.mkdir, os.rmdir = self._mkdir, self._rmdir
        os.unlink = os.remove = self._unlink
        os.rename, os.replace = self._rename, self._replace
        os.listdir, os.scandir = self._listdir, self._scandir
        os.stat, os.lstat = self._stat, self._lstat
        _ka.open = self._open
        _kp.open = self._open
        shutil.open = self._open          # shutil.copyfile & co. open files through the module-global name
        time.sleep = self._sleep
        time.time = self._time
        tempfile.mktemp = self._mktemp
        sqlite3.connect = self._connect
        shutil._use_fd_functions = False
        self.installed = True
        return self

    def uninstall(self):
        import shutil, time, tempfile, sqlite3
        import klepto._archives as _ka
        import klepto._pickle as _kp
        for name in ('mkdir', 'rmdir', 'unlink', 'remove', 'rename', 'replace',
                     'listdir', 'scandir', 'stat', 'lstat'):
            setattr(os, name, _real[name])
        for mod in (_ka, _kp, shutil):
            if 'open' in mod.__dict__:
                del mod.__dict__['open']
        time.sleep = _real['sleep']
        time.time = _real['time']
        tempfile.mktemp = _real['mktemp']
        sqlite3.connect = _real['connect']
        shutil._use_fd_functions = _real['use_fd']
        self.installed = False

    def __enter__(self):
        self.armed = True
        return self

    def __exit__(self, *exc):
        self.armed = False
        return False


class _ScanCtx(object):
    """list-backed stand-in for the os.scandir iterator/context manager"""
    def __init__(self, entries):
        self._it = iter(entries)

    def __iter__(self):
        return self

    def __next__(self):
        return next(self._it)

    def close(self):
        self._it = iter(())

    def __enter__(self):
        return self

    def __exit__(self, *exc):
        self.close()
        return False


def _sql_kind(sql):
    s = sql.lstrip().lower()
    if s.startswith('select'):
        return 'sql-select'
    if s.startswith('create'):
        return 'sql-ddl'
    return 'sql-dml'


def _split_script(sql):
    """the statements of a script; the script stays whole when it manages transactions itself"""
    import re
    import sqlite3
    if re.search(r'\b(begin|savepoint|commit|rollback|end)\b', sql, re.I):
        return [sql]
    out, cur = [], ''
    for piece in re.split(r'(;)', sql):
        cur += piece
        if piece == ';' and sqlite3.complete_statement(cur):
            if cur.strip(' \t\r\n;'):
                out.append(cur)
            cur = ''
    if cur.strip(' \t\r\n;'):
        out.append(cur)
    return out or [sql]


class _ConnProxy(object):
    def __init__(self, fs, conn, database):
        self._fs = fs
        self._conn = conn
        self._db = database

    def cursor(self, *a, **kw):
        return _CursorProxy(self._fs, self._conn.cursor(*a, **kw), self._db)

    def _retry(self, kind, fn):
        """run fn(); a 'database is locked' becomes a blocked event that is
        retried after the scheduler let someone else run, charging virtual
        time until sqlite's busy timeout has elapsed on the simulated clock"""
        import sqlite3
        fs = self._fs
        waited = 0.0
        while True:
            try:
                return fn()
            except sqlite3.OperationalError as e:
                if 'locked' not in str(e) or fs.sched is None or not fs.armed:
                    raise
                waited += 0.25
                fs.clock.slept += 0.25
                fs.counts['sql-busy'] = fs.counts.get('sql-busy', 0) + 1
                if waited > fs.sql_busy_limit:
                    fs.counts['sql-busy-timeout'] = fs.counts.get('sql-busy-timeout', 0) + 1
                    raise
                fs.event('sql-blocked', self._db)

    def commit(self):
        fs = self._fs
        if fs.armed:
            fs.event('sql-commit', self._db)
        return self._retry('sql-commit', self._conn.commit)

    def execute(self, sql, *a):
        fs = self._fs
        if fs.armed:
            fs.event(_sql_kind(sql), self._db)
        return self._retry('exec', lambda: self._conn.execute(sql, *a))

    def executescript(self, sql):
        return _CursorProxy(self._fs, self._conn.cursor(), self._db).executescript(sql)

    def close(self):
        return self._conn.close()

    def __getattr__(self, name):
        return getattr(self._conn, name)


class _CursorProxy(object):
    def __init__(self, fs, cur, database):
        self._fs = fs
        self._cur = cur
        self._db = database

    def execute(self, sql, *a):
        fs = self._fs
        if fs.armed:
            fs.event(_sql_kind(sql), self._db)
        proxy = _ConnProxy(fs, None, self._db)
        return proxy._retry('exec', lambda: self._cur.execute(sql, *a))

    def executescript(self, sql):
        # sqlite runs a script statement by statement, each in its own transaction (unless the script opens one):
        # every statement is an event of its own, so other clients and crash points land BETWEEN them
        fs = self._fs
        proxy = _ConnProxy(fs, None, self._db)
        out = None
        for stmt in _split_script(sql):
            if fs.armed:
                fs.event('sql-script', self._db)
            out = proxy._retry('exec', lambda: self._cur.executescript(stmt))
        return out if out is not None else self._cur

    def __iter__(self):
        return iter(self._cur)

    def __getattr__(self, name):
        return getattr(self._cur, name)
