/* LD_PRELOAD shim: crash points INSIDE C code (sqlite's commit).
 *
 * The Python-level disk seam sees one event for a whole `connection.commit()`.  sqlite's commit protocol
 * (write the rollback journal, fsync it, write the database pages, fsync, delete the journal) runs in C and
 * reaches the kernel through pwrite64/write/fsync/fdatasync/ftruncate/unlink.  This shim counts those calls
 * once it has been armed and kills the process (_exit(137)) right BEFORE the k-th one - or, for a write, after
 * writing a strict prefix of the buffer (torn page).
 *
 * Armed from Python through ctypes:  lib.verif_arm(k, partial) ;  lib.verif_count() returns the number of
 * counted calls since the last verif_arm().  k < 0 counts only.  Only descriptors that refer to regular
 * files whose path starts with the prefix given to verif_prefix() are counted.
 */
#define _GNU_SOURCE
#include <dlfcn.h>
#include <unistd.h>
#include <string.h>
#include <stdio.h>
#include <stdlib.h>
#include <sys/types.h>
#include <limits.h>

static long armed_at = -2;      /* -2: inert, -1: count only, >=0: crash before that call */
static long counter = 0;
static int partial = 0;
static char prefix[PATH_MAX] = "";
#define NKINDS 8192
static char kinds[NKINDS];      /* 'w' write, 's' sync, 't' truncate, 'u' unlink, per counted call */

void verif_prefix(const char *p) { strncpy(prefix, p, sizeof(prefix) - 1); }
void verif_arm(long k, int part) { counter = 0; armed_at = k; partial = part; }
void verif_disarm(void) { armed_at = -2; }
long verif_count(void) { return counter; }
int verif_kind(long i) { return (i >= 0 && i < NKINDS && i < counter) ? kinds[i] : 0; }

static int fd_in_scope(int fd) {
    char link[64], path[PATH_MAX];
    ssize_t n;
    if (armed_at == -2 || prefix[0] == 0) return 0;
    snprintf(link, sizeof link, "/proc/self/fd/%d", fd);
    n = readlink(link, path, sizeof(path) - 1);
    if (n <= 0) return 0;
    path[n] = 0;
    return strncmp(path, prefix, strlen(prefix)) == 0;
}

static int path_in_scope(const char *path) {
    char real[PATH_MAX];
    if (armed_at == -2 || prefix[0] == 0 || path == NULL) return 0;
    if (path[0] == '/') return strncmp(path, prefix, strlen(prefix)) == 0;
    if (realpath(path, real) == NULL) return 0;
    return strncmp(real, prefix, strlen(prefix)) == 0;
}

/* returns 1 when the process must die before this call */
static int tick(char kind) {
    long k = counter++;
    if (k < NKINDS) kinds[k] = kind;
    return armed_at >= 0 && k == armed_at;
}

ssize_t pwrite64(int fd, const void *buf, size_t n, off64_t off) {
    static ssize_t (*real)(int, const void *, size_t, off64_t) = NULL;
    if (!real) real = dlsym(RTLD_NEXT, "pwrite64");
    if (fd_in_scope(fd) && tick('w')) {
        if (partial && n > 1) real(fd, buf, n / 2, off);
        _exit(137);
    }
    return real(fd, buf, n, off);
}

ssize_t pwrite(int fd, const void *buf, size_t n, off_t off) {
    static ssize_t (*real)(int, const void *, size_t, off_t) = NULL;
    if (!real) real = dlsym(RTLD_NEXT, "pwrite");
    if (fd_in_scope(fd) && tick('w')) {
        if (partial && n > 1) real(fd, buf, n / 2, off);
        _exit(137);
    }
    return real(fd, buf, n, off);
}

ssize_t write(int fd, const void *buf, size_t n) {
    static ssize_t (*real)(int, const void *, size_t) = NULL;
    if (!real) real = dlsym(RTLD_NEXT, "write");
    if (fd > 2 && fd_in_scope(fd) && tick('w')) {
        if (partial && n > 1) real(fd, buf, n / 2);
        _exit(137);
    }
    return real(fd, buf, n);
}

int fsync(int fd) {
    static int (*real)(int) = NULL;
    if (!real) real = dlsym(RTLD_NEXT, "fsync");
    if (fd_in_scope(fd) && tick('s')) _exit(137);
    return real(fd);
}

int fdatasync(int fd) {
    static int (*real)(int) = NULL;
    if (!real) real = dlsym(RTLD_NEXT, "fdatasync");
    if (fd_in_scope(fd) && tick('s')) _exit(137);
    return real(fd);
}

int ftruncate64(int fd, off64_t len) {
    static int (*real)(int, off64_t) = NULL;
    if (!real) real = dlsym(RTLD_NEXT, "ftruncate64");
    if (fd_in_scope(fd) && tick('t')) _exit(137);
    return real(fd, len);
}

int ftruncate(int fd, off_t len) {
    static int (*real)(int, off_t) = NULL;
    if (!real) real = dlsym(RTLD_NEXT, "ftruncate");
    if (fd_in_scope(fd) && tick('t')) _exit(137);
    return real(fd, len);
}

int unlink(const char *path) {
    static int (*real)(const char *) = NULL;
    if (!real) real = dlsym(RTLD_NEXT, "unlink");
    if (path_in_scope(path) && tick('u')) _exit(137);
    return real(path);
}
