"""Native crash seam: an LD_PRELOAD shim that kills the process inside C code (sqlite's commit) right before
its k-th write/sync/truncate/unlink system call.  Built on demand with the system C compiler into a scratch
directory keyed by the hash of its source; when no compiler is present the seam is reported as absent and the
Python-level crash points remain the only ones."""
import os
import hashlib
import subprocess

HERE = os.path.dirname(os.path.abspath(__file__))
SRC = os.path.join(HERE, 'crashshim.c')


def build():
    """path of the compiled shim, or None when it cannot be built here"""
    try:
        with open(SRC, 'rb') as f:
            tag = hashlib.sha1(f.read()).hexdigest()[:12]
    except OSError:
        return None
    for base in ('/dev/shm', os.environ.get('TMPDIR', '/tmp')):
        if not os.path.isdir(base) or not os.access(base, os.W_OK):
            continue
        d = os.path.join(base, 'verif-native-%s-%d' % (tag, os.getuid()))
        so = os.path.join(d, 'crashshim.so')
        if os.path.exists(so):
            return so
        try:
            os.makedirs(d, exist_ok=True)
        except OSError:
            continue
        tmp = '%s.%d' % (so, os.getpid())
        for cc in ('gcc', 'cc', 'clang'):
            try:
                r = subprocess.run([cc, '-O1', '-shared', '-fPIC', '-o', tmp, SRC, '-ldl'],
                                   stdout=subprocess.PIPE, stderr=subprocess.PIPE, timeout=120)
            except (OSError, subprocess.TimeoutExpired):
                continue
            if r.returncode == 0 and os.path.exists(tmp):
                os.replace(tmp, so)
                return so
        return None
    return None


_LIB = [False]


def lib():
    """ctypes handle on the preloaded shim in THIS process, or None"""
    if _LIB[0] is False:
        _LIB[0] = None
        if 'crashshim' in os.environ.get('LD_PRELOAD', ''):
            import ctypes
            try:
                h = ctypes.CDLL(None)
                h.verif_arm.argtypes = [ctypes.c_long, ctypes.c_int]
                h.verif_arm.restype = None
                h.verif_prefix.argtypes = [ctypes.c_char_p]
                h.verif_prefix.restype = None
                h.verif_count.restype = ctypes.c_long
                h.verif_kind.argtypes = [ctypes.c_long]
                h.verif_kind.restype = ctypes.c_int
                h.verif_disarm.restype = None
                _LIB[0] = h
            except (OSError, AttributeError):
                _LIB[0] = None
    return _LIB[0]
